(* C04 — generated C layout is a fixed, order-preserving function of the definitions. *)
Require Import Verif.common.Prelude Verif.model.IntResult Verif.model.Glue Verif.proofs.GlueProofs.
Require Import Verif.model.Group Verif.proofs.GroupProofs.
Require Import Verif.model.Layout Verif.gen.RtStructs_Src.
From Coq Require Import Permutation Sorting.Sorted.
Open Scope Z_scope.

(* the vtable holds exactly one function pointer per method, in declaration order *)
Theorem C04_vtbl : forall t, length (gen_trait t) = length (t_methods t) /\
  forall k g, nth_error (gen_trait t) k = Some g -> ir_default g = k /\ ir_w_target g = k /\ ir_i_fetch g = k /\
    exists m, nth_error (t_methods t) k = Some m /\ ir_recv g = m_recv m.
Proof. exact vtbl_order. Qed.
Print Assumptions C04_vtbl.

(* a group: mandatory vtable pointers in identifier order, then optional ones in identifier order (nullable), then the container *)
Theorem C04_group : forall g,
  base_fields g = flat_map (fun t => f_vtbl t false) (sort_ti (g_mand g)) ++ flat_map (fun t => f_vtbl t true) (sort_ti (g_opt g)) ++ [2; 0; 0]
  /\ StronglySorted ti_le (sort_ti (g_mand g)) /\ StronglySorted ti_le (sort_ti (g_opt g))
  /\ Permutation (g_mand g) (sort_ti (g_mand g)) /\ Permutation (g_opt g) (sort_ti (g_opt g)).
Proof. intros g. repeat split; try reflexivity; try apply sort_sorted; apply sort_perm. Qed.
Print Assumptions C04_group.

(* every With-variant (whatever subset, in whatever order it is requested) has the field sequence of the base struct:
   casts reinterpret the same memory *)
Theorem C04_with : forall g req, shape (with_fields g req) = shape (base_fields g).
Proof. exact with_same_shape. Qed.
Print Assumptions C04_with.

(* the Final variant that into! returns holds the mandatory tables, then the requested optional ones, then the container: the field sequence of
   the base struct with the non-requested optional tables removed, order kept *)
Theorem C04_final : forall g mask,
  shape (final_fields g (generated_for g mask)) = map vt (sort_ti (g_mand g)) ++ map vt (generated_for g mask) ++ [(2, 0)]
  /\ subseq (shape (final_fields g (generated_for g mask))) (shape (base_fields g)).
Proof. intros g mask. split; [apply final_shape|apply final_restricts_base]. Qed.
Print Assumptions C04_final.

(* the layout is a function of the definitions only: the sorted order does not depend on the order in which the user
   listed the traits (nor on anything else, e.g. a hash seed: gen_trait / sort_ti take no other input) *)
Theorem C04_det : forall l1 l2, Permutation l1 l2 -> NoDup (map ti_name l1) -> sort_ti l1 = sort_ti l2.
Proof.
  intros l1 l2 P N. apply sorted_perm_unique; try apply sort_sorted.
  - etransitivity; [apply Permutation_sym, sort_perm|]. etransitivity; [exact P|apply sort_perm].
  - eapply NoDup_names_perm; [apply sort_perm|exact N].
Qed.
Print Assumptions C04_det.

(* the object itself: `CGlueTraitObj` is #[repr(C)] {vtbl, container} and `CGlueObjContainer` is #[repr(C)] {instance, context, ret_tmp} in
   /repo's CURRENT source ([rt_structs] is regenerated from cglue/src on every run) *)
Theorem C04_object_layout : all_compat true object_layout rt_structs = true.
Proof. vm_compute. reflexivity. Qed.
Print Assumptions C04_object_layout.

(* #[skip_func]: the definitions the generator works from are the trait without the skipped methods — a skipped method has no slot, no wrapper and
   no forwarding method (its row is [-9; 0; 0; 0]), and the rows of all other methods, slot positions included, are those of the trait without it *)
Theorem C04_skip_func : forall p rows ms, dec_methods (exported rows) = Some ms ->
  strip_skipped rows (run_gen p rows) = run_gen p (exported rows) /\
  (forall k r, nth_error rows k = Some r -> is_skipped r = true -> nth_error (run_gen p rows) k = Some [-9; 0; 0; 0]).
Proof. exact skip_func_rows. Qed.
Print Assumptions C04_skip_func.
