(* C05 — objects work across separately compiled modules and compiler versions.
   Model: model/XMod.v — the scenario of harness/xmod: the SAME source compiled twice (host binary = module 0; cdylib = module 1, built by
   another compiler version / optimisation level / layout seed, with its own tagging allocator) exchanging contexts, single-trait objects,
   groups, vectors, slices, callbacks and iterators through a #[repr(C)] table of extern "C" functions.
   PARTIAL: the theorems are about the logical routing model (results do not depend on the executing module; every release is carried out
   by the owner; nothing stays alive).  That two real compilers agree on the layout of the exchanged types and that the real allocators see
   no foreign pointer is observed by running the model's histories on real module pairs (bin/checks/c05.py), not proved. *)
Require Import Verif.common.Prelude Verif.model.XMod Verif.proofs.XModProofs.
Open Scope Z_scope.

(* which module carries an operation out cannot influence what it computes *)
Theorem C05_step_independent : forall s c m m' r, pstep s (c :: m :: r) = pstep s (c :: m' :: r).
Proof. exact pstep_indep. Qed.
Print Assumptions C05_step_independent.

(* any two-module history has the observable results of the same history run inside a single module *)
Theorem C05_same_results : forall rows,
  firstn (length rows) (run_xmod [0] rows) = firstn (length rows) (run_xmod [1] rows).
Proof. exact xmod_same_results. Qed.
Print Assumptions C05_same_results.

(* at the end of every history nothing is alive in either module, and no block was released by a module that does not own it *)
Theorem C05_clean_end : forall rows,
  skipn (length rows) (run_xmod [0] rows) = [[-1; 0; 0; 0; 0; 0; 0; 0]; [-1; 1; 0; 0; 0; 0; 0; 0]].
Proof. exact xmod_clean_end. Qed.
Print Assumptions C05_clean_end.

Theorem C05_releases_routed_home : forall ops s hs,
  routed (hlog hs) -> routed (hlog (snd (fst (run_ops s hs ops)))).
Proof. exact run_ops_routed. Qed.
Print Assumptions C05_releases_routed_home.

(* non-vacuity: a history that creates in one module and uses, clones, consumes and destroys in the other *)
Example C05_example :
  run_xmod [0] [[0; 0]; [6; 1; 9; 0; 3]; [8; 0; 1; 2; 40]; [11; 1; 1; 2]; [7; 0; 1]; [9; 1; 2]; [10; 0; 2; 2]; [5; 0; 1]; [13; 1; 3]; [14; 0; 3; 5]; [16; 1; 3]; [17; 0; 3]] =
  [[1; 0; 0]; [1; 0; 1]; [1; 1; -1]; [1; 2; -1]; [1; 1; 2]; [1; 49; -1]; [1; 43; -1]; [1; 58; -1]; [1; 0; 3]; [1; 4; -1]; [1; 29; -1]; [1; 0; -1];
   [-1; 0; 0; 0; 0; 0; 0; 0]; [-1; 1; 0; 0; 0; 0; 0; 0]].
Proof. vm_compute. reflexivity. Qed.
