(* C16 — runtime types keep the C layout published in the headers.
   [rt_structs], [rt_enums] (Rust side), [cpp_patterns], [header_structs], [snippet_uses] (C side:
   the struct shapes hard-coded in cglue-bindgen, the pre-generated header, the fields the C
   clone/drop snippets dereference) are REGENERATED from /repo on every run (gen/RtStructs_Src.v);
   [published] is the property's own list (model/Layout.v). *)
Require Import Verif.common.Prelude Verif.model.Layout Verif.model.CView Verif.gen.RtStructs_Src.
From Verif.model Require Import Arc Vec Callback IntResult.
From Coq Require Import String.
Open Scope string_scope.
Open Scope nat_scope.

(* field names, order, pointer/integer kinds and function-pointer arities of every published
   runtime struct agree between the Rust definitions (which must carry a C repr), the C++ patterns
   of the post-processor, the pre-generated C header and the property's list; the enum variants
   are declared in the published order; the C snippets only touch fields that exist *)
Theorem C16_fields :
  all_compat true published rt_structs = true /\
  decls_compat published cpp_patterns = true /\
  decls_compat published header_structs = true /\
  enums_ok rt_enums = true /\
  snippet_fields_ok rt_structs snippet_uses = true.
Proof. vm_compute. repeat split. Qed.
Print Assumptions C16_fields.

Theorem C16_tags :
  enum_tag "COption" "None" = 0%Z /\ enum_tag "COption" "Some" = 1%Z /\
  enum_tag "CResult" "Ok" = 0%Z /\ enum_tag "CResult" "Err" = 1%Z.
Proof. vm_compute. repeat split. Qed.
Print Assumptions C16_tags.

(* offsets of the pointer/usize/function-pointer structs do not depend on the element type at all *)
Theorem C16_offsets : forall esz eal,
  layout (map (fun f => sa esz eal (snd f)) [("instance", KPtr); ("drop_fn", KFnPtr 1)]) = ([0; 8], 16, 8) /\
  layout (map (fun f => sa esz eal (snd f)) [("instance", KPtr); ("clone_fn", KFnPtr 1); ("drop_fn", KFnPtr 1)]) = ([0; 8; 16], 24, 8) /\
  layout (map (fun f => sa esz eal (snd f)) [("data", KPtr); ("len", KUsize)]) = ([0; 8], 16, 8) /\
  layout (map (fun f => sa esz eal (snd f)) [("data", KPtr); ("len", KUsize); ("capacity", KUsize); ("drop_fn", KFnPtr 3); ("reserve_fn", KFnPtr 2)])
    = ([0; 8; 16; 24; 32], 40, 8) /\
  layout (map (fun f => sa esz eal (snd f)) [("context", KPtr); ("func", KFnPtr 2)]) = ([0; 8], 16, 8).
Proof. intros. vm_compute. repeat split. Qed.
Print Assumptions C16_offsets.

(* a #[repr(C)] enum with a payload is {c_int tag; payload}: the payload sits at the tag size rounded up to its alignment *)
Theorem C16_enum_layout : forall esz eal,
  let '(offs, _, _) := layout [(4, 4); (esz, eal)] in offs = [0; round_up 4 eal].
Proof. intros. unfold layout. cbn [place]. destruct (place (round_up 4 eal + esz) []) as [[os e] m] eqn:E. cbn in E. inversion E; subst. reflexivity. Qed.
Print Assumptions C16_enum_layout.

(* driving a value purely through the published fields and functions is the Rust operation *)
Theorem C16_drive_box : forall b, fst (c_box_release b) = fst (rust_box_drop b).
Proof. intros [[v|] [m|]]; reflexivity. Qed.
Print Assumptions C16_drive_box.

Theorem C16_drive_arc : forall s h,
  (forall i c d, get_h s h = HArc i c d -> c_arc_clone s h = astep s (AClone h) /\ c_arc_release s h = astep s (ADrop h)) /\
  (forall a c d, get_h s h = HSome a c d -> c_arc_clone s h = astep s (AClone h) /\ c_arc_release s h = astep s (ADrop h)).
Proof.
  intros s h. split.
  - intros i c d G. unfold c_arc_clone, c_arc_release. cbn [astep]. rewrite G.
    destruct i as [a|], c as [c|], d as [d|]; cbn [drop_handle drop_arc drop_some]; split; try reflexivity;
      try (destruct (arc_dec s a d) as [[s' ev]| |]; reflexivity).
  - intros a c d G. unfold c_arc_clone, c_arc_release. cbn [astep]. rewrite G.
    destruct d as [d|]; cbn [drop_handle drop_some]; split; try reflexivity;
      try (destruct (arc_dec s a d) as [[s' ev]| |]; reflexivity).
Qed.
Print Assumptions C16_drive_arc.

Theorem C16_drive_vec : forall grow v x,
  c_vec_push grow v x = push grow v x /\ c_vec_release v = drop_vec v.
Proof. intros. split; [|reflexivity]. unfold c_vec_push, push, reserve. destruct (cap v <? len v)%nat; [reflexivity|]. destruct (cap v - len v <? 1)%nat; reflexivity. Qed.
Print Assumptions C16_drive_vec.

Theorem C16_drive_callback_iterator : forall items s src,
  c_feed items s = feed_into_mut items s /\ c_advance src = citer_next src.
Proof. intros. split; reflexivity. Qed.
Print Assumptions C16_drive_callback_iterator.
