(* C20 — runtime layout validation accepts identical interfaces and rejects changed ones.
   [and_src], [is_valid_*_src], [compare_src], [variant_order] are REGENERATED from cglue/src/trait_group.rs on
   every run (gen/VerifyAnd_Src.v).  The structural comparison itself is abi_stable's (third-party): the model
   [predicted] (Valid iff the C-visible interfaces generated for the two definitions are identical) is tied to it by
   compiling both definitions with the layout_checks feature and calling the real compare_layouts. *)
Require Import Verif.common.Prelude Verif.model.IntResult Verif.model.Glue Verif.model.LayoutCheck Verif.gen.VerifyAnd_Src.
Open Scope Z_scope.

(* combining verdicts: all 9 ordered pairs — Invalid absorbs, Unknown dominates Valid *)
Theorem C20_and : forall a b, and_src a b = and_spec a b.
Proof. intros [] []; reflexivity. Qed.
Print Assumptions C20_and.

(* a missing description yields Unknown; present descriptions yield Valid/Invalid by compatibility *)
Theorem C20_unknown : forall x c,
  compare_src false x c = Unknown /\ compare_src x false c = Unknown /\
  compare_src true true true = Valid /\ compare_src true true false = Invalid.
Proof. intros [] []; repeat split. Qed.
Print Assumptions C20_unknown.

Theorem C20_flags : forall a,
  (is_valid_strict_src a = true <-> a = Valid) /\ (is_valid_relaxed_src a = true <-> a <> Invalid).
Proof. intros []; cbn; repeat split; intros; try discriminate; try congruence; auto. Qed.
Print Assumptions C20_flags.

(* identical definitions: Valid *)
Theorem C20_same : forall ti rows d, descr ti rows = Some d -> predicted ti rows ti rows = Valid.
Proof.
  intros ti rows d H. unfold predicted. rewrite H. unfold rows_eqb.
  destruct (list_eq_dec (list_eq_dec Z.eq_dec) d d); [reflexivity|contradiction].
Qed.
Print Assumptions C20_same.

(* Valid is reported only when every slot agrees in name, position, receiver form, parameter C types and return C type *)
Theorem C20_valid_only_if_identical : forall t1 r1 t2 r2,
  predicted t1 r1 t2 r2 = Valid -> exists d, descr t1 r1 = Some d /\ descr t2 r2 = Some d.
Proof.
  intros t1 r1 t2 r2. unfold predicted. destruct (descr t1 r1) as [d1|], (descr t2 r2) as [d2|]; try discriminate.
  unfold rows_eqb. destruct (list_eq_dec (list_eq_dec Z.eq_dec) d1 d2); [|discriminate]. subst. eauto.
Qed.
Print Assumptions C20_valid_only_if_identical.

(* the discriminants: the C side sees Valid = 0, Invalid = 1, Unknown = 2 (repr(u8), declaration order) *)
Theorem C20_order : variant_order = [Valid; Invalid; Unknown].
Proof. reflexivity. Qed.
Print Assumptions C20_order.

(* single edits change the description (examples of every kind, evaluated by the kernel) *)
Example C20_edits :
  let base := [[0; 0; 1; 2; 1; 1; 0]; [1; 0; 6; 3; 0]] in
  predicted true base true base = Valid /\
  predicted true base true [[0; 0; 1; 2; 1; 1; 0]] = Invalid /\                          (* method removed *)
  predicted true base true (base ++ [[0; 0; 0; 0; 0]]) = Invalid /\                      (* method added *)
  predicted true base true [[0; 16; 1; 2; 1; 1; 0]; [1; 0; 6; 3; 0]] = Invalid /\        (* method renamed *)
  predicted true base true [[1; 0; 6; 3; 0]; [0; 0; 1; 2; 1; 1; 0]] = Invalid /\         (* reordered *)
  predicted true base true [[0; 0; 1; 2; 1; 1; 3]; [1; 0; 6; 3; 0]] = Invalid /\         (* argument element type changed *)
  predicted true base true [[0; 0; 1; 3; 1; 1; 0]; [1; 0; 6; 3; 0]] = Invalid /\         (* return type changed *)
  predicted true base true [[1; 0; 1; 2; 1; 1; 0]; [1; 0; 6; 3; 0]] = Invalid /\         (* receiver changed *)
  predicted true base false base = Invalid /\                                            (* int_result toggled *)
  predicted true base true [[0; 0; 1; 2; 1; 3; 0]; [1; 0; 6; 3; 0]] = Valid.             (* &[u8] -> &str: the same C interface *)
Proof. vm_compute. repeat split. Qed.
