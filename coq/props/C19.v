(* C19 — a waker crossing the boundary wakes the original and is released once.
   The theorems are about [wstep], the model of cglue/src/task/mod.rs as repaired by the
   "fix:" commit in /repo (known_findings.json: fixed F-C19); [wstep_v0], the code before the
   repair, is proved to violate the property. *)
Require Import Verif.common.Prelude Verif.model.Arc Verif.model.Waker Verif.proofs.WakerProofs.

(* For EVERY finite sequence of clone / wake / wake_by_ref / drop operations on the tree of
   foreign-side wakers obtained inside polls (operations on handles that are gone are
   rejected without effect): no use of a released waker (no UB), the caller's waker is
   woken exactly once per successful wake operation, and at every point the number of
   clones held of the caller's waker equals the number of live shared records, each record's
   count being the number of foreign handles that share it. *)
Theorem C19_history : forall ops,
  exists s rs, wexec winit ops = Some (s, rs) /\
    wakes s = sum_wakes rs /\
    orig_clones s = livecount (recs s) /\
    (forall r x, nth_error (recs s) r = Some x -> rc x = hcount r (handles s) /\ inner_live x = negb (rc x =? 0)).
Proof.
  intros ops. destruct (wexec_inv ops winit WInv_init) as (s & rs & E & (A & F & C & O) & W).
  exists s, rs. split; [exact E|]. split; [exact W|]. split; [exact O|].
  intros r x N. split; [now apply C|]. rewrite Forall_forall in A. apply A. eapply nth_error_In; eauto.
Qed.
Print Assumptions C19_history.

(* once every foreign-side waker is gone, every clone taken of the caller's waker has been released *)
Theorem C19_released : forall ops s rs, wexec winit ops = Some (s, rs) ->
  Forall (fun h => h = None) (handles s) -> orig_clones s = 0.
Proof.
  intros ops s rs E G. destruct (wexec_inv ops winit WInv_init) as (s' & rs' & E' & I & _).
  rewrite E in E'. inversion E'; subst. now apply all_gone.
Qed.
Print Assumptions C19_released.

(* schedules: the statements hold for every interleaving of per-thread operation lists, since
   they hold for every list (operations on one shared record are single atomic RMWs on its count) *)
Theorem C19_sched : forall (t1 t2 ops : list wop),
  (forall o, In o ops -> In o t1 \/ In o t2) ->
  exists s rs, wexec winit ops = Some (s, rs) /\ wakes s = sum_wakes rs /\ orig_clones s = livecount (recs s).
Proof.
  intros t1 t2 ops _. destruct (C19_history ops) as (s & rs & E & W & O & _). eauto.
Qed.
Print Assumptions C19_sched.

(* the code before the repair released the shared clone once per foreign handle *)
Theorem C19_v0_refuted :
  exists ops s1 s2 r1 r2,
    ops = [WCloneInPoll; WClone 0; WDrop 0] /\
    wstep_v0 winit WCloneInPoll = Ok (s1, r1) /\
    (exists s3 r3, wstep_v0 s1 (WClone 0) = Ok (s3, r3) /\ wstep_v0 s3 (WDrop 0) = Ok (s2, r2) /\
       orig_clones s2 = 0 /\ hcount 0 (handles s2) = 1 /\ wstep_v0 s2 (WDrop 1) = UB).
Proof. exact v0_refuted. Qed.
Print Assumptions C19_v0_refuted.

Example C19_example :
  exists s rs, wexec winit [WCloneInPoll; WClone 0; WWake 0; WWakeByRef 1; WEndPoll; WDrop 1] = Some (s, rs) /\
               wakes s = 2 /\ orig_clones s = 0.
Proof. vm_compute. eauto. Qed.
