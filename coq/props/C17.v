(* C17 — generated C/C++ wrappers forward to the right slot with the right arguments.
   Model: model/Bindgen.v (wrapper AST, its rendering, its trace semantics, the prefix/dedupe rules of the C generator, the member
   function rules of the C++ generator).  The facts [*_src] are REGENERATED from cglue-bindgen's source on every run
   (gen/Bindgen_Src.v); the rendering of the AST is compared with the text the real tool emits and the trace semantics with what the
   compiled wrappers do to mock vtables (bin/checks/c17.py). *)
Require Import Verif.common.Prelude Verif.model.Bindgen Verif.proofs.BindgenProofs Verif.gen.Bindgen_Src.
From Coq Require Import String Ascii.
Open Scope string_scope.

(* the tables and the two source-dependent decisions of the generator are the ones the model uses *)
Theorem C17_source_facts :
  inner_table = inner_table_src /\ ctx_table = ctx_table_src /\
  ctx_clone_src = [("NoContext", false); ("CArc_c_void", true)] /\
  snippets_src = ["if (self->drop_fn && self->instance) self->drop_fn(self->instance);";
                  "if (self->clone_fn) ret.instance = self->clone_fn(self->instance);";
                  "if (self->drop_fn && self->instance) self->drop_fn(self->instance);"] /\
  vt_mode_src = 3 /\ clash_mode_src = true /\ cpp_release_src = true.
Proof. repeat split; reflexivity. Qed.
Print Assumptions C17_source_facts.

(* the argument splitter returns the (type, name) pairs of a vtable entry's parameter list, unchanged and in order *)
Theorem C17_split_args : forall l,
  Forall wf_carg l -> split_args (render_args l) = map (fun a => (ca_ty a, ca_name a)) l.
Proof. exact split_args_spec. Qed.
Print Assumptions C17_split_args.

(* C mode: every vtable entry of every object and group type (and its drop helper) is served by a wrapper present in the header — the
   one generated for the first entry with the same (prefix, name); it invokes that entry's slot of that object's vtable with the
   container and the arguments in order, returns the result (in an object carrying all vtable pointers when the entry returns a
   container), clones the context before a consuming call and releases the clone after it, and the drop helper releases the instance
   and the context once — whenever the served wrapper is the entry's own or differs from it only in the struct `self` is cast to *)
Theorem C17_c_mode : forall cfg es ei e fi f,
  nth_error es ei = Some e -> nth_error (funcs_of e) fi = Some f ->
  let x := (ei, fi, e, f) in
  exists y, first_with clash_mode_src cfg es (ikey clash_mode_src cfg es x) (all_items es) = Some y /\
            In (iemit clash_mode_src cfg es (vtbls_passed vt_mode_src es) y) (gen_c vt_mode_src clash_mode_src cfg es) /\
            (strip_this (iwrap clash_mode_src cfg es (vtbls_passed vt_mode_src es) y) =
             strip_this (iwrap clash_mode_src cfg es (vtbls_passed vt_mode_src es) x) ->
             correct_c es e f (iwrap clash_mode_src cfg es (vtbls_passed vt_mode_src es) y)).
Proof. exact c_mode_serves. Qed.
Print Assumptions C17_c_mode.

Theorem C17_c_mode_unique : forall cfg es ei e fi f,
  nth_error es ei = Some e -> nth_error (funcs_of e) fi = Some f ->
  (forall y, In y (all_items es) -> ikey clash_mode_src cfg es y = ikey clash_mode_src cfg es (ei, fi, e, f) -> y = (ei, fi, e, f)) ->
  In (ei, fi, wrapper_of clash_mode_src cfg es (vtbls_passed vt_mode_src es) e f) (gen_c vt_mode_src clash_mode_src cfg es) /\
  correct_c es e f (wrapper_of clash_mode_src cfg es (vtbls_passed vt_mode_src es) e f).
Proof. exact c_mode_unique_key. Qed.
Print Assumptions C17_c_mode_unique.

(* what `correct_c` says, spelled out for the three kinds of entries *)
Theorem C17_meaning : forall es e f w, correct_c es e f w ->
  (f_calls f = true -> f_moves f = false ->
     trace w = [EvCall (vtbl_field e) (f_name f) true (map snd (f_args f))]) /\
  (f_calls f = true -> f_moves f = true -> snd (ctx_info (e_ctx e)) = true ->
     trace w = [EvClone; EvCall (vtbl_field e) (f_name f) false (map snd (f_args f)); EvDropClone]) /\
  (f_calls f = false -> f_moves f = true ->
     trace w = ((if snd (inner_info (e_inner e)) then [EvDropInst] else []) ++ (if snd (ctx_info (e_ctx e)) then [EvDropCtx] else []))%list) /\
  (f_calls f = true -> trim_s (f_ret f) = container_ty e -> container_ty e <> "void" -> returns w = RetWrapped (fields_of es e)).
Proof.
  intros es e f w [Ht [Hr _]]. unfold expected_trace_c, call_ev in Ht. repeat split.
  - intros Hc Hm. rewrite Ht, Hc, Hm. reflexivity.
  - intros Hc Hm Hx. rewrite Ht, Hc, Hm, Hx. reflexivity.
  - intros Hc Hm. rewrite Ht, Hc, Hm. reflexivity.
  - intros Hc Heq Hv. rewrite (Hr Hc). unfold expected_ret. rewrite Heq.
    destruct (String.eqb (container_ty e) "void") eqn:E; [apply String.eqb_eq in E; contradiction|].
    rewrite String.eqb_refl. reflexivity.
Qed.
Print Assumptions C17_meaning.

(* the defect that remains in the C generator (recorded as known finding F-C17-variant): a container-returning entry of the second
   container/context variant is served by the first variant's wrapper, which returns another struct type *)
Theorem C17_variant_conflict_witness :
  let es := [wit_e1; wit_e2] in
  let f2 := parse_func "dup" "struct CGlueObjContainer_S2 " 1 "" in
  exists y, first_with true wit_cfg es (ikey true wit_cfg es (1, 0, wit_e2, f2)) (all_items es) = Some y /\
            w_ret (iwrap true wit_cfg es (vtbls_passed 3 es) y) = "struct Obj1" /\
            expected_ret_ty wit_e2 f2 = "struct Obj2".
Proof. exact variant_conflict_witness. Qed.
Print Assumptions C17_variant_conflict_witness.

(* C++ mode: every function of every vtable of a group, and of every single-trait object, gets a member function that forwards to
   that vtable's slot with the container (by address, or by value for consuming entries) and its own arguments in order; a consuming
   member function clones the context before the call, nulls out the moved-from container and releases the clone afterwards *)
Theorem C17_cpp_group : forall vs g t v fi f,
  In t (g_traits g) -> find_vtbl vs t = Some v -> nth_error (v_funcs v) fi = Some f -> f_calls f = true ->
  exists w, In (t, fi, w) (gen_cpp_group cpp_release_src vs g) /\
            trace w = (if f_moves f then [EvClone; EvCall ("vtbl_" ++ lower t) (f_name f) false (map snd (f_args f)); EvForget; EvDropClone]
                       else [EvCall ("vtbl_" ++ lower t) (f_name f) true (map snd (f_args f))]) /\
            w_params w = f_args f /\
            returns w = (if String.eqb (trim_s (f_ret f)) "void" then RetVoid
                         else if String.eqb (trim_s (f_ret f)) "CGlueC" then RetWrapped (map (fun t => "vtbl_" ++ lower t) (g_traits g)) else RetCall).
Proof.
  intros vs g t v fi f Ht Hv Hf Hc. destruct (cpp_group_serves cpp_release_src vs g t v fi f Ht Hv Hf Hc) as [w [H1 [H2 [H3 H4]]]].
  exists w. repeat split; try assumption. rewrite H2. unfold expected_trace_cpp, call_ev. destruct (f_moves f); reflexivity.
Qed.
Print Assumptions C17_cpp_group.

Theorem C17_cpp_obj : forall v fi f,
  nth_error (v_funcs v) fi = Some f -> f_calls f = true ->
  exists w, In (v_name v, fi, w) (gen_cpp_obj cpp_release_src v) /\
            trace w = (if f_moves f then [EvClone; EvCall "vtbl" (f_name f) false (map snd (f_args f)); EvForget; EvDropClone]
                       else [EvCall "vtbl" (f_name f) true (map snd (f_args f))]) /\
            w_params w = f_args f.
Proof.
  intros v fi f Hf Hc. destruct (cpp_obj_serves cpp_release_src v fi f Hf Hc) as [w [H1 [H2 [H3 _]]]].
  exists w. repeat split; try assumption. rewrite H2. unfold expected_trace_cpp, call_ev. destruct (f_moves f); reflexivity.
Qed.
Print Assumptions C17_cpp_obj.

(* the repaired defect F-C17-cpp-leak: the generator as found never released that clone *)
Theorem C17_cpp_clone_never_released_before_fix : forall f vtbl prefix this vtbls,
  ~ In EvDropClone (trace (cpp_wrapper false f vtbl prefix this vtbls)).
Proof. exact cpp_clone_never_released_before_fix. Qed.
Print Assumptions C17_cpp_clone_never_released_before_fix.

(* non-vacuity: a concrete header with a group of two traits that share a function name, two variants and a consuming entry *)
Example C17_example :
  let f_get := parse_func "get" "uintptr_t " 1 ", uint32_t x, const struct Pair *p" in
  let f_eat := parse_func "eat" "
    void " 2 "" in
  let e1 := mkentry false "Alpha" "Grp" "CBox_c_void_____CArc_c_void" "CBox_c_void" "CArc_c_void" "" [f_get; f_eat] in
  let e2 := mkentry false "Beta" "Grp" "CBox_c_void_____CArc_c_void" "CBox_c_void" "CArc_c_void" "" [f_get] in
  let out := gen_c 3 true (mkcfg None None None) [e1; e2] in
  map (fun x : emitted => w_name (snd x)) out = ["grp_alpha_get"; "grp_arc_box_eat"; "grp_arc_box_drop"; "grp_beta_get"] /\
  f_args f_get = [("uint32_t", "x"); ("const struct Pair *", "p")] /\
  map (fun x : emitted => trace (snd x)) out =
    [[EvCall "vtbl_alpha" "get" true ["x"; "p"]]; [EvClone; EvCall "vtbl_alpha" "eat" false []; EvDropClone]; [EvDropInst; EvDropCtx];
     [EvCall "vtbl_beta" "get" true ["x"; "p"]]].
Proof. vm_compute. repeat split; reflexivity. Qed.
