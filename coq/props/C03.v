(* C03 — everything crossing the boundary is FFI-safe by the compiler's own rules.
   [ffi_safe] is the transcription of rustc's improper_ctypes rules for the C types that can occur in a vtable
   signature; it is validated against rustc itself on every run (re-compiled REAL expansions under
   #![deny(improper_ctypes_definitions)]).  [rt_structs] is regenerated from /repo by the translator. *)
Require Import Verif.common.Prelude Verif.model.IntResult Verif.model.Glue Verif.proofs.GlueProofs.
Require Import Verif.model.Layout Verif.gen.RtStructs_Src.
From Coq Require Import String.
Open Scope Z_scope.

(* every vtable entry of every well-formed trait: extern "C" (constant of the encoding, checked against the real
   expansion by the tie) with FFI-safe parameter and return types *)
Theorem C03_vtable : forall t pos m, wf_method t m = true ->
  forallb ffi_safe (ir_cargs (gen_method t pos m)) = true /\ ffi_safe (ir_cret (gen_method t pos m)) = true.
Proof. exact sig_ffi_safe. Qed.
Print Assumptions C03_vtable.

(* no slice, str, Option<non-NPO>, Result or tuple appears: the only C types are those of [cty] and each Rust shape is mapped to its C wrapper *)
Theorem C03_wrapped : forall a,
  match fst a with
  | ASlice => arg_cty a = CSliceRef (snd a) | ASliceMut => arg_cty a = CSliceMut (snd a) | AStr => arg_cty a = CSliceRef 0
  | AOpt => arg_cty a = COptionC (snd a) | _ => True
  end.
Proof. intros [[] l]; reflexivity. Qed.
Print Assumptions C03_wrapped.

(* every C-compatible wrapper type shipped by the library has a defined representation *)
Definition shipped : list string :=
  ["CBox"; "CSliceBox"; "CArc"; "CArcSome"; "CSliceRef"; "CSliceMut"; "CVec"; "OpaqueCallback"; "Callback"; "CIterator";
   "ReprCString"; "ReprCStr"; "Fwd"; "CGlueTraitObj"; "CGlueObjContainer"; "CTup1"; "CTup2"; "CTup3"; "CTup4"; "CRefWaker"]%string.
Theorem C03_runtime :
  forallb (fun n => match find_s rt_structs n with Some d => has_c_repr d | None => false end) shipped = true /\
  forallb (fun e => String.eqb (e_repr e) "C") rt_enums = true.
Proof. vm_compute. split; reflexivity. Qed.
Print Assumptions C03_runtime.
