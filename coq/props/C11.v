(* C11 — CVec is observationally a Vec.  Property theorems only; proofs live in
   proofs/VecProofs.v.  The model is model/Vec.v (field/memory level), the specification
   is [spec_step]/[spec_run] over plain lists. *)
Require Import Verif.common.Prelude Verif.model.Vec Verif.proofs.VecProofs.
From Coq Require Import Permutation.

(* One step of the implementation model, from any well-formed state, for ANY growth
   policy honouring Vec::reserve's contract: never undefined behaviour; on normal return
   the new contents and the result/destructor row are those of Vec; on a panic
   (out-of-range insert/remove/index) the contents are unchanged. Well-formedness
   (len <= cap, cap field = real allocation capacity = buffer size) is preserved. *)
Theorem C11_refine :
  forall grow, (forall l a c, l + a <= grow l a c) ->
  forall v o, wf v ->
  match step grow v o with
  | Ok (v', out) => wf v' /\ spec_step (abs v) o = (abs v', out, false)
  | Panic (v', out) => wf v' /\ abs v' = abs v /\ spec_step (abs v) o = (abs v, out, true)
  | UB => False
  end.
Proof. exact step_refines. Qed.
Print Assumptions C11_refine.

(* Whole histories: the observable output of any script (results, destructor order, final
   drop) is exactly Vec's. *)
Theorem C11_run :
  forall grow, (forall l a c, l + a <= grow l a c) ->
  forall ops v, wf v -> run_from grow v ops = spec_run (abs v) ops.
Proof. exact run_refines. Qed.
Print Assumptions C11_run.

(* capacity >= length (and the capacity handed to the allocator is the allocation's) in
   every reachable state *)
Theorem C11_cap :
  forall grow, (forall l a c, l + a <= grow l a c) ->
  forall ops v, wf v -> Forall (fun s => len s <= cap s /\ acap s = cap s) (states_from grow v ops).
Proof.
  intros g G ops v W. eapply Forall_impl; [| apply (reachable_wf g G ops v W)].
  intros s (A & B & C). auto.
Qed.
Print Assumptions C11_cap.

(* every element is handed back or destroyed exactly once (multiset equality) *)
Theorem C11_tokens : forall ops l,
  Permutation (l ++ entered_run l ops)
              (rows_returned (spec_run l ops) ++ rows_dropped (spec_run l ops)).
Proof. exact tokens_conserved. Qed.
Print Assumptions C11_tokens.

(* unwind safety of clone: when the clone of an element panics (element type PC of the harness: values ending in ..13), the vector is unchanged
   and exactly the clones made before the poisoned element are destroyed — what Vec::clone does (instance of C11_refine for the VCloneP step) *)
Theorem C11_clone_unwind :
  forall grow, (forall l a c, l + a <= grow l a c) ->
  forall v, wf v -> existsb poison (abs v) = true ->
  step grow v VCloneP = Panic (v, ([5; 9]%Z, cloned_before (abs v))).
Proof.
  intros g G v W P. cbn [step]. destruct W as (Hl & Hc & Ha). rewrite region_0 by lia. fold (abs v). now rewrite P.
Qed.
Print Assumptions C11_clone_unwind.

(* non-vacuity: a concrete well-formed vector with spare capacity, and the std policy
   satisfies the contract *)
Example C11_wf_example : wf (from_vec 2 [7; 8]%Z) /\ (forall l a c, l + a <= std_grow l a c).
Proof. split; [apply from_vec_wf | intros; unfold std_grow; lia]. Qed.

(* Clone::clone_from onto a destination holding ANY elements: the destination becomes a copy of the source (same contents and length, well-formed), the
   destructor row is the destination's own elements followed by those of the replaced vector — nothing of the destination's old tail survives. *)
Theorem C11_clone_from :
  forall grow, (forall l a c, l + a <= grow l a c) ->
  forall v dst, wf v ->
  exists c, step grow v (VCloneFrom dst) = Ok (c, ([5%Z], dst ++ abs v)) /\ wf c /\ abs c = abs v.
Proof. exact clone_from_copies. Qed.
Print Assumptions C11_clone_from.
