(* C01 — calls through an opaque object behave exactly like direct calls.
   Model: model/Glue.v ([gen_trait] mirrors cglue-gen; tied to the real generator on every run by abstracting REAL
   expansions to the same integer rows, exhaustively over the single-method grammar); semantics: [dispatch]. *)
Require Import Verif.common.Prelude Verif.model.IntResult Verif.model.Glue Verif.proofs.GlueProofs.
Open Scope Z_scope.

(* For every trait of the grammar, every method index k and every argument vector inhabiting the method's shapes: the call
   made through the opaque object fetches a vtable slot whose Default entry is a wrapper that calls the trait method with
   the SAME index, exactly once, with the SAME argument values. *)
Theorem C01_dispatch : forall t k m vs,
  nth_error (t_methods t) k = Some m ->
  Forall2 (fun a v => arg_ok (fst a) v = true) (m_args m) vs ->
  dispatch (gen_trait t) (t_methods t) k vs = Some (k, vs).
Proof. exact dispatch_same. Qed.
Print Assumptions C01_dispatch.

(* and the value returned by the implementation comes back unchanged (see also C02/C13) *)
Theorem C01_result : forall t pos m v,
  wf_method t m = true -> ret_exact (m_ret m) (int_active t m) v = true ->
  ret_through (gen_method t pos m) (m_ret m) v = Some v.
Proof. exact ret_through_id. Qed.
Print Assumptions C01_result.

(* receiver access on both sides is the method's own receiver kind; consuming methods hold a context guard *)
Theorem C01_receiver : forall t k m,
  ir_recv (gen_method t k m) = m_recv m /\ ir_w_access (gen_method t k m) = m_recv m /\ ir_i_cont (gen_method t k m) = m_recv m /\
  ir_i_guard (gen_method t k m) = match m_recv m with ROwn => true | _ => false end.
Proof. intros. destruct (gen_method_wiring t k m) as (_ & _ & _ & _ & _ & A & B & C & D). auto. Qed.
Print Assumptions C01_receiver.

(* #[cglue_forward]: a call made through a Fwd handle reaches the method of the same index on the value behind the handle, with the same
   arguments — for every method with a reference receiver, provided (default-bodied) ones included; by-value methods are not forwarded *)
Theorem C01_forward : forall t k m vs,
  nth_error (t_methods t) k = Some m -> m_vtbl_only m = false -> m_recv m <> ROwn -> length vs = length (m_args m) ->
  fwd_dispatch (gen_forward t) k vs = Some (k, vs).
Proof. exact forward_same. Qed.
Print Assumptions C01_forward.

Example C01_example :
  let t := mkt true [mkm RRef IDefault QResUnitErr 2 [(ASlice, 0); (AStr, 0)] false; mkm ROwn IDefault QPrim 3 [] false] in
  dispatch (gen_trait t) (t_methods t) 0 [RvSlice 4096 3; RvStr 8192 5] = Some (0%nat, [RvSlice 4096 3; RvStr 8192 5]).
Proof. reflexivity. Qed.
