(* C13 — integer result codes: zero means success and the output is initialised (runtime part:
   cglue/src/result.rs; the generated out-parameter plumbing is covered with the generator
   model).  Theorems only; proofs in proofs/IntResultProofs.v. *)
Require Import Verif.common.Prelude Verif.model.IntResult Verif.proofs.IntResultProofs.
Open Scope Z_scope.

(* encoding never panics (no shipped error encodes to 0); the code is 0 exactly for Ok, and
   then the success value has been moved into the caller's slot; for Err the code is
   non-zero and the slot is untouched *)
Theorem C13_encode : forall r s,
  exists code s', into_int_out_result r s = Some (code, s') /\
    (code = 0 <-> exists v, r = ROk v) /\
    (forall v, r = ROk v -> s' = Filled v) /\
    (forall e, r = RErr e -> code <> 0 /\ s' = s).
Proof. exact out_zero_iff. Qed.
Print Assumptions C13_encode.

(* decoding looks at the slot only when the code is 0 *)
Theorem C13_decode : forall t code s1 s2, code <> 0 -> from_int_result t code s1 = from_int_result t code s2.
Proof. exact decode_ignores_slot. Qed.
Print Assumptions C13_decode.

(* no shipped error type ever encodes to 0 *)
Theorem C13_shipped_nonzero : forall e, exists c, into_int_err e = Some c /\ c <> 0.
Proof. exact into_int_err_nonzero. Qed.
Print Assumptions C13_shipped_nonzero.

(* a non-zero OS error code survives encoding and decoding unchanged *)
Theorem C13_os_code : forall c, c <> 0 ->
  exists code, into_int_err (EIoOs c) = Some code /\ code = c /\ from_int_err TIo code = EIoOs c.
Proof. exact os_code_survives. Qed.
Print Assumptions C13_os_code.

(* end to end through a fresh slot: no read of an uninitialised slot, Ok keeps its payload,
   errors stay errors (io errors without an OS code, and OS code 0, become 0xffff) *)
Theorem C13_roundtrip : forall r,
  exists code s, into_int_out_result r Uninit = Some (code, s) /\
    match r with
    | ROk v => from_int_result TIo code s = Ok (ROk v) /\ from_int_result TUnit code s = Ok (ROk v) /\ from_int_result TFmt code s = Ok (ROk v)
    | RErr e => from_int_result (etype_of e) code s =
                  Ok (RErr (match e with
                            | EIoOs c => if c =? 0 then EIoOs 65535 else EIoOs c
                            | EIoOther _ => EIoOs 65535
                            | EUnit => EUnit | EFmt => EFmt end))
    end.
Proof. exact roundtrip. Qed.
Print Assumptions C13_roundtrip.

Theorem C13_int_result : forall r, exists c, into_int_result r = Some c /\ (c = 0 <-> exists v, r = ROk v).
Proof. exact int_result_zero_iff. Qed.
Print Assumptions C13_int_result.
