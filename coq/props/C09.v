(* C09 — type erasure never makes an object more thread-safe than its contents.
   [env], [rules] and [known] come from coq/gen/AutoTraits_Src.v, REGENERATED from /repo's current
   source on every run (every struct/enum, every explicit unsafe impl Send/Sync, every
   `unsafe impl Opaquable`, a real expansion of sample definitions for the generated
   structs); [known] is the known class of known_findings.json (F-C09).  The matrix
   (rules x all Send/Sync assignments of all parameters x {Send,Sync}) is finite and is
   enumerated completely inside the kernel. *)
Require Import Verif.common.Prelude Verif.model.AutoTrait Verif.proofs.AutoTraitProofs Verif.gen.AutoTraits_Src.
From Coq Require Import String.

Lemma matrix_checked : all_sound_but env rules known = true.
Proof. vm_compute. reflexivity. Qed.

(* For every conversion rule, every assignment of (Send?,Sync?) to its parameters that satisfies
   the rule's own bounds — and, for compositional rules (Fwd, containers, objects, groups,
   PhantomData), every inner conversion that itself adds nothing — and every marker: if the
   opaque form has the marker and the source does not, the cell is one of the known cells. *)
Theorem C09 : forall r c, In r rules -> In c (cells_of r) ->
  cell_adds env r c = true ->
  exists k, In k known /\ c_rule k = r_name r /\ c_rho k = c_rho c /\ c_rho_o k = c_rho_o c /\ c_marker k = c_marker c.
Proof. exact (sound_but_lift env rules known matrix_checked). Qed.
Print Assumptions C09.

(* the generic (compositional) rules add nothing at all, under the hypothesis that the conversion
   of their Opaquable parameter adds nothing: no known cell is needed for them *)
Lemma comp_checked : comp_sound env rules = true.
Proof. vm_compute. reflexivity. Qed.
Theorem C09_compositional : forall r c, In r rules -> compositional r = true -> In c (cells_of r) ->
  cell_adds env r c = false.
Proof. exact (comp_sound_lift env rules comp_checked). Qed.
Print Assumptions C09_compositional.

(* the known class is real: for each base rule there is a payload class for which the opaque form gains a marker *)
Definition base_gain (n : string) : bool :=
  existsb (fun r => String.eqb (r_name r) n && existsb (cell_adds env r) (cells_of r)) rules.
Theorem C09_refuted :
  base_gain "&T" = true /\ base_gain "&mut T" = true /\ base_gain "CBox<T>" = true /\
  base_gain "CSliceBox<T>" = true /\ base_gain "CArc<T>" = true /\ base_gain "CArcSome<T>" = true.
Proof. vm_compute. repeat split. Qed.
Print Assumptions C09_refuted.

(* contents: where the compiler's structural rule applies (an ADT whose own fields hold no raw pointer), an explicit unsafe impl never grants
   Send or Sync to an instantiation whose fields do not have it — a container, object or group is never more thread-safe than what it holds
   (instance handle, context AND return scratch space), whatever explicit impls the source declares *)
Theorem C09_contents : overreach env = [].
Proof. vm_compute. reflexivity. Qed.
Print Assumptions C09_contents.
Theorem C09_contents_spec : forall a rho m bs, In a env -> existsb has_ptr (a_fields a) = false -> a_fields a <> [] ->
  In rho (assignments (a_nparams a)) -> (match m with MSend => a_send a | MSync => a_sync a end) = Some bs ->
  grants bs rho = true -> structural env a rho m = true.
Proof.
  intros a rho m bs Ha Hp Hf Hr Hi Hg.
  destruct (structural env a rho m) eqn:S; [reflexivity|exfalso].
  assert (X : In (a_name a, rho, m) (overreach env)).
  { unfold overreach. apply in_flat_map. exists a. split; [exact Ha|]. unfold overreach_of. rewrite Hp.
    destruct (a_fields a) as [|f fs] eqn:F; [congruence|]. cbn [List.length Nat.eqb orb].
    apply in_flat_map. exists rho. split; [exact Hr|]. apply in_flat_map. exists m. split; [destruct m; cbn; auto|].
    rewrite Hi, Hg. rewrite <- F in *. rewrite S. cbn. left. reflexivity. }
  rewrite C09_contents in X. exact X.
Qed.
Print Assumptions C09_contents_spec.

