(* C07 — the context lives as long as any derived object, and no longer.
   Known class (known_findings.json F-C07): histories that obtain a BORROWED wrapped child (wrap_with_obj_ref /
   _mut, wrap_with_group_ref / _mut) — each such call parks a context clone in a MaybeUninit return slot. *)
Require Import Verif.common.Prelude Verif.model.Life Verif.proofs.LifeProofs.
Open Scope Z_scope.

(* at every point: context count above baseline = live derived objects + clones parked in return slots *)
Theorem C07_inv : forall ops s, LInv s ->
  let '(s', _, _) := lexec s ops in level s' = sum_holds (lpool s') + leaked s' /\
  (forallb (fun o => negb (uses_borrowed o)) ops = true -> leaked s' = leaked s).
Proof. intros ops s I. pose proof (lexec_inv ops s I) as H. destruct (lexec s ops) as [[s' ds] cr]. destruct H as ((A & _) & _ & C). auto. Qed.
Print Assumptions C07_inv.

(* outside the known class: after all derived objects are gone the count is back to its starting value *)
Theorem C07_end : forall ops, forallb (fun o => negb (uses_borrowed o)) ops = true ->
  let '(s, _, _) := full_history ops in level s = 0.
Proof. intros ops NB. pose proof (full_history_spec ops) as H. destruct (full_history ops) as [[s ds] cr]. destruct H as (_ & _ & _ & E). auto. Qed.
Print Assumptions C07_end.

(* the known class is real *)
Theorem C07_refuted :
  let '(s, _, _) := full_history [OCreateRef 3; OChildRef 0; OChildRef 0; OChildRef 0] in level s = 3.
Proof. exact borrowed_refuted. Qed.
Print Assumptions C07_refuted.
