(* C02 — arguments and results cross the boundary without loss or alteration. *)
Require Import Verif.common.Prelude Verif.model.IntResult Verif.model.Glue Verif.proofs.GlueProofs.
Open Scope Z_scope.

(* every argument shape, every inhabitant (slices/strings: any address and length incl. 0; options: None/Some; ...):
   Rust value -> (trait-impl side conversion) -> C value -> (wrapper side conversion) -> Rust value is the identity *)
Theorem C02_args : forall a v, arg_ok (fst a) v = true -> arg_roundtrip a v = Some v.
Proof. exact arg_roundtrip_id. Qed.
Print Assumptions C02_args.

(* every return shape: wrapper tail then trait-impl tail is the identity (integer results through a fresh out slot) *)
Theorem C02_ret : forall t pos m v,
  wf_method t m = true -> ret_exact (m_ret m) (int_active t m) v = true ->
  ret_through (gen_method t pos m) (m_ret m) v = Some v.
Proof. exact ret_through_id. Qed.
Print Assumptions C02_ret.

(* whole argument vectors, in order *)
Theorem C02_vector : forall shapes vs,
  Forall2 (fun a v => arg_ok (fst a) v = true) shapes vs ->
  conv_args (map arg_iconv shapes) (map arg_wconv shapes) shapes vs = Some vs.
Proof. exact conv_args_id. Qed.
Print Assumptions C02_vector.
