(* C10 — CArc and CArcSome behave as Arc and Option<Arc>.  Property theorems only; proofs in
   proofs/ArcProofs.v; model in model/Arc.v (three-field handles over a table of counted
   allocations, function pointers tagged with the module that instantiated them). *)
Require Import Verif.common.Prelude Verif.model.Arc Verif.proofs.ArcProofs.

(* For EVERY finite sequence of operations on a pool of handles (ill-targeted operations are
   rejected without effect, so no validity hypothesis is needed): no undefined behaviour, and
   in the final — hence in every intermediate — state the strong count of each allocation
   equals the number of live handles owning it, and every non-empty handle is well-formed
   (points into the table, carries the clone/drop functions of the creating module). *)
Theorem C10_count : forall ops,
  exists s ev, exec init ops = Some (s, ev) /\
    (forall a, strong_of s a = owners a (pool s)) /\ Forall (wfh s) (pool s).
Proof.
  intros ops. destruct (exec_inv ops init Inv_init) as (s & ev & E & (F & C) & _).
  exists s, ev. auto.
Qed.
Print Assumptions C10_count.

(* every increment/decrement is executed by code of the module that created the allocation *)
Theorem C10_module : forall ops s ev, exec init ops = Some (s, ev) ->
  Forall (fun e => match e with AInc a m | ADec a m => m = owner_of s a | _ => True end) ev.
Proof.
  intros ops s ev E. destruct (exec_inv ops init Inv_init) as (s' & ev' & E' & _ & _ & R & _).
  rewrite E in E'. inversion E'; subst. exact R.
Qed.
Print Assumptions C10_module.

(* the shared value is destroyed exactly once, exactly when the last handle has gone:
   over the whole history the number of destructor runs of allocation a is 1 if a exists
   and its count is 0 at the end, and 0 otherwise *)
Theorem C10_once : forall ops s ev a, exec init ops = Some (s, ev) -> dropcount ev a = deadn s a.
Proof.
  intros ops s ev a E. destruct (exec_inv ops init Inv_init) as (s' & ev' & E' & _ & _ & _ & D).
  rewrite E in E'. inversion E'; subst. specialize (D a). unfold deadn at 1 in D. cbn in D. lia.
Qed.
Print Assumptions C10_once.

(* an empty CArc clones to an empty CArc and drops as a no-op *)
Theorem C10_empty : forall s h c d, get_h s h = HArc None c d ->
  astep s (AClone h) = Ok (add_h s (HArc None None None), [6; 1; nz (length (pool s))]%Z, []) /\
  astep s (ADrop h) = Ok (set_h s h HDead, [12; 1; -1]%Z, []).
Proof. intros s h c d G. cbn [astep]. rewrite G. split; reflexivity. Qed.
Print Assumptions C10_empty.

(* schedules: the statements above hold for every interleaving of per-thread histories,
   because they hold for every history (each operation is one atomic read-modify-write of
   the shared count plus writes to fields of a handle owned by one thread) *)
Inductive interleave {A} : list A -> list A -> list A -> Prop :=
| il_nil : interleave [] [] []
| il_l x l1 l2 l : interleave l1 l2 l -> interleave (x :: l1) l2 (x :: l)
| il_r x l1 l2 l : interleave l1 l2 l -> interleave l1 (x :: l2) (x :: l).

Theorem C10_sched : forall t1 t2 ops, interleave t1 t2 ops ->
  exists s ev, exec init ops = Some (s, ev) /\
    (forall a, strong_of s a = owners a (pool s)) /\
    (forall a, dropcount ev a = deadn s a) /\
    Forall (fun e => match e with AInc a m | ADec a m => m = owner_of s a | _ => True end) ev.
Proof.
  intros t1 t2 ops _. destruct (C10_count ops) as (s & ev & E & C & _).
  exists s, ev. split; [exact E|]. split; [exact C|]. split.
  - intros a. eapply C10_once; eauto.
  - eapply C10_module; eauto.
Qed.
Print Assumptions C10_sched.

(* what one thread observes: the result rows and the kinds of its handles do not depend on the counts — two runs of one history from
   states with the same handles agree on them whatever other threads did to the shared allocations in between (the tie: case id 110 runs
   one history on several threads over shared allocations and compares each thread's rows with the sequential model's) *)
Theorem C10_thread_view : forall ops s1 s2 rows1 f1 rows2 f2, same_view s1 s2 ->
  arun_raw s1 ops = (rows1, Some f1) -> arun_raw s2 ops = (rows2, Some f2) ->
  proj_thread rows1 = proj_thread rows2 /\ same_view f1 f2.
Proof. exact thread_rows. Qed.
Print Assumptions C10_thread_view.

(* non-vacuity: a history that creates, clones, takes, transposes and drops *)
Example C10_example :
  exists s ev, exec init [ANewArc 1 7; AClone 0; ATake 0; AToSome 2; ADrop 1; ADrop 3; ADrop 0]%Z = Some (s, ev) /\
    dropcount ev 0 = 1 /\ strong_of s 0 = 0.
Proof. vm_compute. eauto. Qed.

(* which module's code runs: per operation, the clone (drop) function of module m runs exactly as often as the count of an allocation that
   module m created goes up (down) — so a handle created elsewhere is never cloned or released by local code.  The tie: case id 210 builds
   the handles of module 1 through the published {instance, clone_fn, drop_fn} layout with counting functions and compares the number of
   runs per operation with [calls_of 1] of the model (rows of [arun_calls_raw], lemma [arun_calls_steps]) *)
Theorem C10_calls_view : forall ops s evs, steps init ops = Some (s, evs) ->
  Forall (fun ev => forall m, incs_by m ev = incs_on s m ev /\ decs_by m ev = decs_on s m ev) evs.
Proof. exact calls_view. Qed.
Print Assumptions C10_calls_view.

Theorem C10_calls_rows : forall ops s rows f, arun_calls_raw s ops = (rows, Some f) ->
  exists evs, steps s ops = Some (f, evs) /\ odd_rows rows = map (calls_of 1) evs.
Proof. exact arun_calls_steps. Qed.
Print Assumptions C10_calls_rows.

(* "On any number of threads": the handles may cross threads exactly when std's Arc may.  Read off the declarations regenerated from the current source
   (gen/AutoTraits_Src.v, the translator of C09): the explicit `unsafe impl Send` / `unsafe impl Sync` of CArc<T> and CArcSome<T> carry the very bounds
   of Arc<T> — both markers require the payload to be Send AND Sync. *)
Require Verif.model.AutoTrait Verif.gen.AutoTraits_Src.
From Coq Require Import String.
Open Scope string_scope.
Definition markers_of (n : string) : option (option (list AutoTrait.bound) * option (list AutoTrait.bound)) :=
  option_map (fun a => (AutoTrait.a_send a, AutoTrait.a_sync a)) (AutoTrait.lookup AutoTraits_Src.env n).
Theorem C10_thread_markers :
  markers_of "std::Arc" = Some (Some [(0%nat, true, true)], Some [(0%nat, true, true)]) /\
  markers_of "CArc" = markers_of "std::Arc" /\ markers_of "CArcSome" = markers_of "std::Arc".
Proof. vm_compute. repeat split; reflexivity. Qed.
Print Assumptions C10_thread_markers.
