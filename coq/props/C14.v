(* C14 — ReprCString owns one well-formed NUL-terminated buffer.  Theorems only.
   [from_bytes] is the byte-slice constructor as repaired by the "fix:" commit in /repo
   (see known_findings.json: fixed F-C14); the correspondence run ties it to the tree. *)
Require Import Verif.common.Prelude Verif.model.CStr Verif.proofs.CStrProofs.
Open Scope Z_scope.

(* for every input (any bytes, any number of NULs anywhere): the buffer is the input up to
   its first NUL plus exactly one NUL; the scan stays inside the allocation and finds its
   size; it reads back as that prefix; it is freed with the size it was allocated with;
   nothing else was allocated *)
Theorem C14_str : forall input, let c := from_str input in
  bytes c = prefix_to_nul input ++ [0] /\
  string_size (bytes c) = Some (alloc_size c) /\
  as_ref c = Ok (prefix_to_nul input) /\
  drop_cstring c = Ok (alloc_size c) /\
  leaked_extra c = 0%nat.
Proof. exact from_str_spec. Qed.
Print Assumptions C14_str.

Theorem C14_bytes : forall input, let c := from_bytes input in
  bytes c = prefix_to_nul input ++ [0] /\
  string_size (bytes c) = Some (alloc_size c) /\
  as_ref c = Ok (prefix_to_nul input) /\
  drop_cstring c = Ok (alloc_size c) /\
  leaked_extra c = 0%nat.
Proof. exact from_str_spec. Qed.
Print Assumptions C14_bytes.

Theorem C14_string : forall input, let c := from_string input in
  bytes c = prefix_to_nul input ++ [0] /\
  string_size (bytes c) = Some (alloc_size c) /\
  as_ref c = Ok (prefix_to_nul input) /\
  drop_cstring c = Ok (alloc_size c) /\
  leaked_extra c = 0%nat.
Proof. exact from_str_spec. Qed.
Print Assumptions C14_string.

(* clones are equal by content and independently owned *)
Theorem C14_clone : forall input,
  exists c2, clone_cstring (from_str input) = Ok c2 /\ as_ref c2 = Ok (prefix_to_nul input) /\
             drop_cstring c2 = Ok (alloc_size c2) /\ bytes c2 = bytes (from_str input).
Proof. exact clone_spec. Qed.
Print Assumptions C14_clone.

(* the byte-slice constructor as it was before the repair violates the property *)
Theorem C14_v0_refuted : exists input, as_ref (from_bytes_v0 input) = UB /\ leaked_extra (from_bytes_v0 input) <> 0%nat.
Proof. exact v0_refuted. Qed.
Print Assumptions C14_v0_refuted.

(* compares by content: two owned strings are == exactly when their texts (inputs up to the first NUL) are the same bytes, whatever followed the NUL *)
Theorem C14_eq : forall i j, eq_cstring (from_str i) (from_str j) = Ok true <-> prefix_to_nul i = prefix_to_nul j.
Proof. exact eq_iff_content. Qed.
Print Assumptions C14_eq.

(* hashes by content: the hashed key is the text itself, so equal strings hash equally and like the &str with the same content *)
Theorem C14_hash : forall i, hash_key (from_str i) = Ok (prefix_to_nul i).
Proof. exact hash_by_content. Qed.
Print Assumptions C14_hash.

(* the buffer holds exactly one NUL and it is the last byte *)
Theorem C14_one_nul : forall input,
  count_occ Z.eq_dec (bytes (from_str input)) 0 = 1%nat /\ last (bytes (from_str input)) 1 = 0.
Proof. exact one_nul_last. Qed.
Print Assumptions C14_one_nul.

(* the text is a prefix of the input, cut at a NUL or at the end of the input: no conversion invents or reorders bytes *)
Theorem C14_prefix : forall input, exists rest, input = prefix_to_nul input ++ rest /\ (rest = [] \/ exists r, rest = 0 :: r).
Proof. exact prefix_is_prefix. Qed.
Print Assumptions C14_prefix.

(* a ReprCStr borrowed from a C string (text p without NUL, its terminator, then ANY further memory) reads back p and never depends on what
   lies behind the terminator; memory without a terminator is an out-of-bounds scan (the caller's obligation, CStr guarantees it) *)
Theorem C14_borrowed : forall p rest, Forall (fun x => x <> 0) p -> borrowed_as_ref (p ++ 0 :: rest) = Ok p.
Proof. exact borrowed_reads_back. Qed.
Print Assumptions C14_borrowed.
Theorem C14_borrowed_needs_nul : forall p, Forall (fun x => x <> 0) p -> borrowed_as_ref p = UB.
Proof. exact borrowed_unterminated. Qed.
Print Assumptions C14_borrowed_needs_nul.

(* Borrow<ReprCStr> of an owned string reads the same text as the owned string; rebuilding from the read-back text gives the same buffer *)
Theorem C14_borrow_agrees : forall input, borrowed_as_ref (borrow_cstring (from_str input)) = as_ref (from_str input).
Proof. exact borrow_agrees. Qed.
Print Assumptions C14_borrow_agrees.
Theorem C14_idem : forall input, from_str (prefix_to_nul input) = from_str input.
Proof. exact from_readback_idem. Qed.
Print Assumptions C14_idem.

Example C14_eq_example : eq_cstring (from_str [97; 0; 98]) (from_str [97]) = Ok true /\ eq_cstring (from_str [97; 98]) (from_str [97]) = Ok false.
Proof. split; reflexivity. Qed.
