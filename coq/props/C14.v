(* C14 — ReprCString owns one well-formed NUL-terminated buffer.  Theorems only.
   [from_bytes] is the byte-slice constructor as repaired by the "fix:" commit in /repo
   (see known_findings.json: fixed F-C14); the correspondence run ties it to the tree. *)
Require Import Verif.common.Prelude Verif.model.CStr Verif.proofs.CStrProofs.
Open Scope Z_scope.

(* for every input (any bytes, any number of NULs anywhere): the buffer is the input up to
   its first NUL plus exactly one NUL; the scan stays inside the allocation and finds its
   size; it reads back as that prefix; it is freed with the size it was allocated with;
   nothing else was allocated *)
Theorem C14_str : forall input, let c := from_str input in
  bytes c = prefix_to_nul input ++ [0] /\
  string_size (bytes c) = Some (alloc_size c) /\
  as_ref c = Ok (prefix_to_nul input) /\
  drop_cstring c = Ok (alloc_size c) /\
  leaked_extra c = 0%nat.
Proof. exact from_str_spec. Qed.
Print Assumptions C14_str.

Theorem C14_bytes : forall input, let c := from_bytes input in
  bytes c = prefix_to_nul input ++ [0] /\
  string_size (bytes c) = Some (alloc_size c) /\
  as_ref c = Ok (prefix_to_nul input) /\
  drop_cstring c = Ok (alloc_size c) /\
  leaked_extra c = 0%nat.
Proof. exact from_str_spec. Qed.
Print Assumptions C14_bytes.

Theorem C14_string : forall input, let c := from_string input in
  bytes c = prefix_to_nul input ++ [0] /\
  string_size (bytes c) = Some (alloc_size c) /\
  as_ref c = Ok (prefix_to_nul input) /\
  drop_cstring c = Ok (alloc_size c) /\
  leaked_extra c = 0%nat.
Proof. exact from_str_spec. Qed.
Print Assumptions C14_string.

(* clones are equal by content and independently owned *)
Theorem C14_clone : forall input,
  exists c2, clone_cstring (from_str input) = Ok c2 /\ as_ref c2 = Ok (prefix_to_nul input) /\
             drop_cstring c2 = Ok (alloc_size c2) /\ bytes c2 = bytes (from_str input).
Proof. exact clone_spec. Qed.
Print Assumptions C14_clone.

(* the byte-slice constructor as it was before the repair violates the property *)
Theorem C14_v0_refuted : exists input, as_ref (from_bytes_v0 input) = UB /\ leaked_extra (from_bytes_v0 input) <> 0%nat.
Proof. exact v0_refuted. Qed.
Print Assumptions C14_v0_refuted.
