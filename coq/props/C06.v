(* C06 — every owned value is destroyed exactly once, with nothing leaked. *)
Require Import Verif.common.Prelude Verif.model.Life Verif.proofs.LifeProofs Verif.model.Boxed Verif.proofs.BoxedProofs.
From Coq Require Import Permutation.
Open Scope Z_scope.

(* Over EVERY finite history of create / call / owned child / borrowed child / consuming calls / clone / cast (successful
   or not) / upcast / drop on a pool of opaque objects (ill-targeted operations are rejected without effect), followed
   by the release of whatever is left: the instances created and the instances destroyed are the same multiset — every
   owned value is destroyed exactly once, none is leaked — and no instance is alive at the end. *)
Theorem C06_exactly_once : forall ops,
  let '(s, ds, cr) := full_history ops in Permutation cr ds /\ live s = 0.
Proof. intros ops. pose proof (full_history_spec ops) as H. destruct (full_history ops) as [[s ds] cr]. tauto. Qed.
Print Assumptions C06_exactly_once.

(* at every point of a history the instances alive are exactly those owned by live handles (by-reference objects own none) *)
Theorem C06_prefix : forall ops s, LInv s ->
  let '(s', ds, cr) := lexec s ops in LInv s' /\ Permutation (alive (lpool s) ++ cr) (alive (lpool s') ++ ds).
Proof. intros ops s I. pose proof (lexec_inv ops s I) as H. destruct (lexec s ops) as [[s' ds] cr]. tauto. Qed.
Print Assumptions C06_prefix.

(* the runtime boxes themselves (CBox<T>, CSliceBox<T>; typed or opaque): over EVERY finite history of create (from a value, a Box, a boxed
   slice of any length) / read / write / into_opaque / into_inner / drop, followed by the release of whatever is left, the values handed to
   boxes are, as a multiset, exactly the values destroyed plus the values handed back to the caller — each exactly once — and no box holds
   anything at the end *)
Theorem C06_boxes : forall ops,
  let '(p, ds, back, cr) := bx_full ops in Permutation cr (ds ++ back) /\ held p = [].
Proof. exact bx_full_spec. Qed.
Print Assumptions C06_boxes.

(* at every point of such a history *)
Theorem C06_boxes_prefix : forall ops p,
  let '(p', ds, back, cr) := bxexec p ops in Permutation (held p ++ cr) (held p' ++ ds ++ back).
Proof. exact bxexec_inv. Qed.
Print Assumptions C06_boxes_prefix.

Example C06_boxes_example :
  bx_full [XNewSlice [1; 2; 3]; XWrite 0 1 9; XOpaque 0; XNew 5; XIntoInner 2] = ([XDead; XDead; XDead], [2; 1; 9; 3], [5], [1; 2; 3; 9; 5]).
Proof. vm_compute. reflexivity. Qed.
