(* C06 — every owned value is destroyed exactly once, with nothing leaked. *)
Require Import Verif.common.Prelude Verif.model.Life Verif.proofs.LifeProofs.
From Coq Require Import Permutation.
Open Scope Z_scope.

(* Over EVERY finite history of create / call / owned child / borrowed child / consuming calls / clone / cast (successful
   or not) / upcast / drop on a pool of opaque objects (ill-targeted operations are rejected without effect), followed
   by the release of whatever is left: the instances created and the instances destroyed are the same multiset — every
   owned value is destroyed exactly once, none is leaked — and no instance is alive at the end. *)
Theorem C06_exactly_once : forall ops,
  let '(s, ds, cr) := full_history ops in Permutation cr ds /\ live s = 0.
Proof. intros ops. pose proof (full_history_spec ops) as H. destruct (full_history ops) as [[s ds] cr]. tauto. Qed.
Print Assumptions C06_exactly_once.

(* at every point of a history the instances alive are exactly those owned by live handles (by-reference objects own none) *)
Theorem C06_prefix : forall ops s, LInv s ->
  let '(s', ds, cr) := lexec s ops in LInv s' /\ Permutation (alive (lpool s) ++ cr) (alive (lpool s') ++ ds).
Proof. intros ops s I. pose proof (lexec_inv ops s I) as H. destruct (lexec s ops) as [[s' ds] cr]. tauto. Qed.
Print Assumptions C06_prefix.
