(* Shared definitions: outcomes, list memory primitives, integer-list codec helpers.
   No axioms.  Plain stdlib. *)
From Coq Require Export List Arith ZArith Lia Bool.
Export ListNotations.

(* Result of one modelled operation.
   [Ok a]     – normal completion
   [Panic a]  – a Rust panic (assert!/bounds check) – carries the state left behind
   [UB]       – the modelled code performed an access outside its allocation, used a
                stale capacity for a free, read an uninitialised slot … i.e. undefined
                behaviour.  Property theorems show this is unreachable from wf states. *)
Inductive outcome (A : Type) : Type :=
| Ok (a : A)
| Panic (a : A)
| UB.
Arguments Ok {A} a.
Arguments Panic {A} a.
Arguments UB {A}.

(* ---- raw memory as a list of cells ------------------------------------------- *)

(* [overwrite m dst chunk]: write [chunk] at index [dst]; None when out of bounds. *)
Definition overwrite {A} (m : list A) (dst : nat) (chunk : list A) : option (list A) :=
  if dst + length chunk <=? length m
  then Some (firstn dst m ++ chunk ++ skipn (dst + length chunk) m)
  else None.

(* [region m src n]: read n cells from src; None when out of bounds. *)
Definition region {A} (m : list A) (src n : nat) : option (list A) :=
  if src + n <=? length m then Some (firstn n (skipn src m)) else None.

(* [memmove m src dst n] = core::ptr::copy(base+src, base+dst, n) (overlap allowed) *)
Definition memmove {A} (m : list A) (src dst n : nat) : option (list A) :=
  match region m src n with
  | Some chunk => overwrite m dst chunk
  | None => None
  end.

Definition set_cell {A} (m : list A) (i : nat) (x : A) : option (list A) :=
  overwrite m i [x].

Definition get_cell {A} (m : list A) (i : nat) : option A := nth_error m i.

(* ---- integer-list codec ---------------------------------------------------------
   Every executable model exposes  run : list Z -> list (list Z) -> list (list Z)
   (parameters, operations, one output row per operation [+ trailer rows]).  The
   operations are decoded from integer rows inside Coq, so the OCaml driver and the
   in-kernel [cases.v] evaluator are completely generic. *)

Definition zn (z : Z) : nat := Z.to_nat z.
Definition nz (n : nat) : Z := Z.of_nat n.
Definition bz (b : bool) : Z := if b then 1%Z else 0%Z.
Definition zb (z : Z) : bool := negb (Z.eqb z 0).

Fixpoint take_until_false {A} (f : A -> bool) (l : list A) : list A :=
  match l with
  | [] => []
  | x :: xs => if f x then x :: take_until_false f xs else [x]
  end.
