(* C20: verdicts of the run-time layout validation, the description of a generated interface that
   the validation compares, and the verdict predicted for two definitions.  NO proofs. *)
Require Import Verif.common.Prelude Verif.model.IntResult Verif.model.Glue.
Open Scope Z_scope.

Inductive verdict := Valid | Invalid | Unknown.

(* the documented combination: Invalid absorbs, Unknown dominates Valid *)
Definition and_spec (a b : verdict) : verdict :=
  match a, b with
  | Invalid, _ | _, Invalid => Invalid
  | Valid, Valid => Valid
  | _, _ => Unknown
  end.

Definition enc_verdict (v : verdict) : Z := match v with Valid => 0 | Invalid => 1 | Unknown => 2 end.

(* the C-visible interface of a trait object: per vtable slot its name, receiver form, C parameter types, C return type *)
Definition method_name (pos : nat) (im : Z) : Z := if im / 16 =? 0 then nz pos else 1000 + im / 16.
Definition slot_descr (name : Z) (g : irm) : list Z :=
  [name; enc_recv (ir_recv g); nz (length (ir_cargs g))] ++ flat_map enc_cty (ir_cargs g) ++ enc_cty (ir_cret g).

(* rows: [recv; intmode(+16*name id); ret; retleaf; nargs; args..] as for model 1 *)
Definition descr (trait_int : bool) (rows : list (list Z)) : option (list (list Z)) :=
  match dec_methods rows with
  | Some ms =>
      let names := map (fun p : nat * list Z => method_name (fst p) (nth 1 (snd p) 0)) (combine (seq 0 (length rows)) rows) in
      Some (map (fun p : Z * irm => slot_descr (fst p) (snd p)) (combine names (gen_trait (mkt trait_int ms))))
  | None => None
  end.

Definition rows_eqb (a b : list (list Z)) : bool :=
  if list_eq_dec (list_eq_dec Z.eq_dec) a b then true else false.

(* the verdict of comparing the layout descriptions of two builds: Valid iff the C-visible interfaces are identical *)
Definition predicted (ti1 : bool) (r1 : list (list Z)) (ti2 : bool) (r2 : list (list Z)) : verdict :=
  match descr ti1 r1, descr ti2 r2 with
  | Some d1, Some d2 => if rows_eqb d1 d2 then Valid else Invalid
  | _, _ => Unknown
  end.

(* case: params [ti1; ti2]; rows = rows1 ++ [[-1]] ++ rows2 *)
Fixpoint split_at_marker (rows : list (list Z)) : list (list Z) * list (list Z) :=
  match rows with
  | [] => ([], [])
  | [m] :: r => if m =? -1 then ([], r) else let '(a, b) := split_at_marker r in ([m] :: a, b)
  | x :: r => let '(a, b) := split_at_marker r in (x :: a, b)
  end.
Definition run_layoutcheck (params : list Z) (rows : list (list Z)) : list (list Z) :=
  match params with
  | t1 :: t2 :: _ => let '(a, b) := split_at_marker rows in [[enc_verdict (predicted (negb (t1 =? 0)) a (negb (t2 =? 0)) b)]]   (* a third parameter (the harness's own expectation) is ignored *)
  | _ => [[-2]]
  end.
