(* Rust's structural rules for the auto traits Send and Sync, as an executable calculus over
   an environment of ADT definitions and explicit `unsafe impl`s.  The environment and the
   list of opaque-conversion rules are NOT written by hand: they are regenerated from
   /repo's current source on every run (coq/gen/AutoTraits_Src.v).  NO proofs here. *)
Require Import Verif.common.Prelude.
From Coq Require Import String.
Open Scope string_scope.

Inductive ty :=
| TParam (n : nat)          (* n-th type parameter of the enclosing definition / rule                     *)
| TOpaqueOf (n : nat)       (* <param n as Opaquable>::OpaqueTarget, resp. <param n as CGlueBaseVtbl>::OpaqueVtbl *)
| TRef (t : ty)             (* &T        : Send <-> T: Sync ; Sync <-> T: Sync                              *)
| TMutRef (t : ty)          (* &mut T    : Send <-> T: Send ; Sync <-> T: Sync                              *)
| TPtr (t : ty)             (* *const/*mut T, NonNull<T> : neither                                          *)
| TFn                       (* fn pointers of any ABI: both                                                 *)
| TPrim                     (* integers, bool, (), core::ffi::c_void, ... : both                            *)
| TWrap (t : ty)            (* PhantomData<T>, Option<T>, MaybeUninit<T>, [T; N], ManuallyDrop<T>: as T     *)
| TAdt (name : string) (args : list ty)
| TUnknown (s : string).    (* not expressible: counted as neither Send nor Sync                            *)

Inductive marker := MSend | MSync.
Definition pick (m : marker) (p : bool * bool) : bool := match m with MSend => fst p | MSync => snd p end.

(* one bound of an explicit impl / of a rule: parameter index, needs Send, needs Sync *)
Definition bound : Type := (nat * bool * bool)%type.

Record adt := mkadt {
  a_name : string;
  a_nparams : nat;
  a_fields : list ty;
  a_send : option (list bound);     (* Some bs: an explicit `unsafe impl Send` with these bounds replaces the structural rule *)
  a_sync : option (list bound)
}.

Fixpoint lookup (env : list adt) (n : string) : option adt :=
  match env with
  | [] => None
  | a :: r => if String.eqb (a_name a) n then Some a else lookup r n
  end.

Definition nth_pair (l : list (bool * bool)) (n : nat) : bool * bool := nth n l (false, false).

Section Has.
Variable env : list adt.

(* has fuel rho rho_o m t : does type t (parameters valued by rho, opaque projections by rho_o) have marker m *)
Fixpoint has (fuel : nat) (rho rho_o : list (bool * bool)) (m : marker) (t : ty) {struct fuel} : bool :=
  match fuel with
  | 0 => false
  | S fuel =>
      match t with
      | TParam n => pick m (nth_pair rho n)
      | TOpaqueOf n => pick m (nth_pair rho_o n)
      | TRef t' => has fuel rho rho_o MSync t'
      | TMutRef t' => has fuel rho rho_o m t'
      | TPtr _ => false
      | TFn | TPrim => true
      | TWrap t' => has fuel rho rho_o m t'
      | TUnknown _ => false
      | TAdt name args =>
          match lookup env name with
          | None => false
          | Some a =>
              let vals := map (fun x => (has fuel rho rho_o MSend x, has fuel rho rho_o MSync x)) args in
              match (match m with MSend => a_send a | MSync => a_sync a end) with
              | Some bs =>
                  forallb (fun b : bound => let '(i, s, y) := b in
                              (implb s (fst (nth_pair vals i))) && (implb y (snd (nth_pair vals i)))) bs
              | None => forallb (fun f => has fuel vals [] m f) (a_fields a)
              end
          end
      end
  end.
End Has.

(* an opaque-conversion rule:  unsafe impl<P..: bounds> Opaquable for src { type OpaqueTarget = tgt } *)
Record rule := mkrule {
  r_name : string;
  r_nparams : nat;
  r_bounds : list bound;            (* Send / Sync bounds on parameters                                  *)
  r_opaquable : list nat;           (* parameters bound by Opaquable (resp. CGlueBaseVtbl): compositional *)
  r_src : ty;
  r_tgt : ty
}.

Definition FUEL := 40.

(* all assignments of (Send?, Sync?) to n parameters *)
Fixpoint assignments (n : nat) : list (list (bool * bool)) :=
  match n with
  | 0 => [[]]
  | S n => flat_map (fun a => map (fun p => p :: a) [(true, true); (true, false); (false, true); (false, false)]) (assignments n)
  end.

Definition bounds_ok (r : rule) (rho : list (bool * bool)) : bool :=
  forallb (fun b : bound => let '(i, s, y) := b in
              (implb s (fst (nth_pair rho i))) && (implb y (snd (nth_pair rho i)))) (r_bounds r).

(* for compositional parameters: the inner conversion itself adds no marker *)
Definition inner_ok (r : rule) (rho rho_o : list (bool * bool)) : bool :=
  forallb (fun i => (implb (fst (nth_pair rho_o i)) (fst (nth_pair rho i))) &&
                    (implb (snd (nth_pair rho_o i)) (snd (nth_pair rho i)))) (r_opaquable r).

Definition adds (env : list adt) (r : rule) (rho rho_o : list (bool * bool)) (m : marker) : bool :=
  has env FUEL rho rho_o m (r_tgt r) && negb (has env FUEL rho rho_o m (r_src r)).

(* a cell of the matrix *)
Record cell := mkcell { c_rule : string; c_rho : list (bool * bool); c_rho_o : list (bool * bool); c_marker : marker }.

Definition pair_eqb (a b : bool * bool) : bool := Bool.eqb (fst a) (fst b) && Bool.eqb (snd a) (snd b).
Fixpoint list_eqb {A} (e : A -> A -> bool) (a b : list A) : bool :=
  match a, b with
  | [], [] => true
  | x :: a', y :: b' => e x y && list_eqb e a' b'
  | _, _ => false
  end.
Definition marker_eqb (a b : marker) : bool := match a, b with MSend, MSend | MSync, MSync => true | _, _ => false end.
Definition cell_eqb (a b : cell) : bool :=
  String.eqb (c_rule a) (c_rule b) && list_eqb pair_eqb (c_rho a) (c_rho b) &&
  list_eqb pair_eqb (c_rho_o a) (c_rho_o b) && marker_eqb (c_marker a) (c_marker b).

(* rho_o ranges over assignments too, but only its entries at compositional parameters matter:
   other entries are fixed to (false,false) to keep the matrix small *)
Definition rho_o_candidates (r : rule) : list (list (bool * bool)) :=
  filter (fun ro => forallb (fun i => if existsb (Nat.eqb i) (r_opaquable r) then true
                                       else pair_eqb (nth_pair ro i) (false, false)) (seq 0 (r_nparams r)))
         (assignments (r_nparams r)).

Definition cells_of (r : rule) : list cell :=
  let ros := rho_o_candidates r in
  flat_map (fun rho =>
    flat_map (fun ro => [mkcell (r_name r) rho ro MSend; mkcell (r_name r) rho ro MSync]) ros)
    (assignments (r_nparams r)).

Definition cell_applies (r : rule) (c : cell) : bool :=
  bounds_ok r (c_rho c) && inner_ok r (c_rho c) (c_rho_o c).

Definition cell_adds (env : list adt) (r : rule) (c : cell) : bool :=
  cell_applies r c && adds env r (c_rho c) (c_rho_o c) (c_marker c).

(* the decision the property theorem is about: every applicable cell that adds a marker is a listed known cell *)
Definition cell_eqb_same_rule (a b : cell) : bool :=
  list_eqb pair_eqb (c_rho a) (c_rho b) && list_eqb pair_eqb (c_rho_o a) (c_rho_o b) && marker_eqb (c_marker a) (c_marker b).
Definition all_sound_but (env : list adt) (rules : list rule) (known : list cell) : bool :=
  forallb (fun r =>
     let kr := filter (fun k => String.eqb (c_rule k) (r_name r)) known in
     forallb (fun c => implb (cell_adds env r c) (existsb (cell_eqb_same_rule c) kr)) (cells_of r)) rules.

Definition all_known_add (env : list adt) (rules : list rule) (known : list cell) : bool :=
  forallb (fun k => existsb (fun r => String.eqb (r_name r) (c_rule k) && cell_adds env r k) rules) known.

(* table printed for the comparison with rustc: per rule and parameter assignment (no opaque
   projections: only rules without compositional parameters are probed this way):
   [rule index; applies; src Send; src Sync; tgt Send; tgt Sync] ++ flattened assignment *)
Definition b2n (b : bool) : nat := if b then 1 else 0.
Definition table (env : list adt) (rules : list rule) : list (list nat) :=
  flat_map (fun ir : nat * rule => let '(i, r) := ir in
     match r_opaquable r with
     | [] => map (fun rho =>
               ([i; b2n (bounds_ok r rho);
                 b2n (has env FUEL rho [] MSend (r_src r)); b2n (has env FUEL rho [] MSync (r_src r));
                 b2n (has env FUEL rho [] MSend (r_tgt r)); b2n (has env FUEL rho [] MSync (r_tgt r))]
                ++ flat_map (fun p : bool * bool => [b2n (fst p); b2n (snd p)]) rho)%list) (assignments (r_nparams r))
     | _ => []
     end) (combine (seq 0 (List.length rules)) rules).

(* ---- explicit impls are no weaker than the contents -------------------------------------------------------------------
   An explicit `unsafe impl Send/Sync` replaces the structural rule.  For an ADT whose own fields hold no raw pointer (where the
   compiler's structural rule already says who may cross threads) the explicit impl may only be STRONGER: whenever it grants the
   marker for an assignment of its parameters, the structural rule over the fields grants it too.  (ADTs with raw-pointer fields
   are exactly those where the explicit impl is the only statement of ownership; they are covered by the conversion matrix.) *)
Fixpoint has_ptr (t : ty) : bool :=
  match t with
  | TPtr _ | TUnknown _ => true
  | TRef t' | TMutRef t' | TWrap t' => has_ptr t'
  | TAdt _ args => existsb has_ptr args
  | _ => false
  end.
Definition grants (bs : list bound) (rho : list (bool * bool)) : bool :=
  forallb (fun b : bound => let '(i, s, y) := b in (implb s (fst (nth_pair rho i))) && (implb y (snd (nth_pair rho i)))) bs.
Definition structural (env : list adt) (a : adt) (rho : list (bool * bool)) (m : marker) : bool :=
  forallb (fun f => has env FUEL rho [] m f) (a_fields a).
Definition overreach_of (env : list adt) (a : adt) : list (string * list (bool * bool) * marker) :=
  if existsb has_ptr (a_fields a) || (List.length (a_fields a) =? 0)%nat then [] else
  flat_map (fun rho =>
    flat_map (fun m => match (match m with MSend => a_send a | MSync => a_sync a end) with
                       | Some bs => if grants bs rho && negb (structural env a rho m) then [(a_name a, rho, m)] else []
                       | None => []
                       end) [MSend; MSync]) (assignments (a_nparams a)).
Definition overreach (env : list adt) : list (string * list (bool * bool) * marker) := flat_map (overreach_of env) env.
(* rows for the harness: [adt index; marker (0 Send, 1 Sync)] ++ flattened assignment *)
Definition overreach_rows (env : list adt) : list (list nat) :=
  flat_map (fun ia : nat * adt => map (fun x : string * list (bool * bool) * marker => let '(_, rho, m) := x in
     ([fst ia; match m with MSend => 0 | MSync => 1 end] ++ flat_map (fun p : bool * bool => [b2n (fst p); b2n (snd p)]) rho)%list) (overreach_of env (snd ia)))
    (combine (seq 0 (List.length env)) env).

