(* The generator model: trait definitions of the supported grammar, the function [gen_trait]
   mirroring what cglue-gen emits for them at the level of the "glue IR", the numeric encoding of
   that IR (the very rows that harness/gen abstracts from REAL expansions, compared on every
   run), and an interpreter giving the IR a meaning (values crossing the boundary).  NO proofs. *)
Require Import Verif.common.Prelude.
Open Scope Z_scope.

(* ---- grammar ------------------------------------------------------------------------------------- *)
Inductive recv := RRef | RMut | ROwn.
(* leaf types by index: 0 u8,1 u16,2 u32,3 u64,4 usize,5 i32,6 i64,7 bool,8 f64, 9 *const u8 (a raw pointer: no null niche, so
   Option<*const u8> is wrapped like Option<u32>) ; 15 = () (only as Result payload) *)
Definition leaf := Z.

Inductive ashape :=                    (* argument shapes *)
| APrim | ASlice | ASliceMut | AStr | AOpt | AOptRef | AInto | ARefMut | ACallback | APod | ARef | AIter | AResult.
Inductive rshape :=                    (* return shapes *)
| QUnit | QPrim | QSlice | QStr | QOpt | QOptRef | QResUnitErr | QResEmpty | QSliceMut | QPod | QRef
| QResU8Err | QResIoErr.

Inductive intmode := IDefault | IOn | IOff.     (* none / #[int_result] / #[no_int_result] on the method *)

(* m_vtbl_only: #[vtbl_only] — the method gets its vtable slot and wrapper like any other, but the trait re-implementation on the opaque
   object does not forward it (calls through the object run the trait's default body; C01 excludes such methods) *)
Record method := mkm { m_recv : recv; m_int : intmode; m_ret : rshape; m_retleaf : leaf; m_args : list (ashape * leaf); m_vtbl_only : bool }.
Record trait_def := mkt { t_int : bool; t_methods : list method }.

(* ---- glue IR ----------------------------------------------------------------------------------------- *)
(* C types appearing in vtable signatures *)
Inductive cty :=
| CNone | CLeaf (l : leaf) | CSliceRef (l : leaf) | CSliceMut (l : leaf) | COptionC (l : leaf) | COptRefFwd (l : leaf)
| CRefMut (l : leaf) | CCallback (l : leaf) | CPod | CRef (l : leaf) | CInt32 | COkOut (l : leaf) | CResultC (ok err : leaf)
| CIter (l : leaf).

Inductive conv := VId | VInto | VIntoStr.                       (* x | x.into() | unsafe { x.into_str() } *)
Inductive wtail := WRet | WRetInto | WIntOut | WInt.            (* ret | ret.into() | into_int_out_result(ret, ok_out) | into_int_result(ret) *)
Inductive itail := IRet | IRetInto | IIntoStr | IFromInt | IFromIntEmpty.

Record irm := mkir {
  ir_default : nat;                  (* which cglue_wrapped_* function the Default vtable stores in this slot (by method index) *)
  ir_w_target : nat;                 (* which trait method that wrapper calls: <ObjType as Trait>::m_k                      *)
  ir_i_fetch : nat;                  (* which vtable slot the trait re-implementation of this method fetches                 *)
  ir_recv : recv;                    (* receiver form of the vtable entry: &CGlueC / &mut CGlueC / CGlueC *)
  ir_cargs : list cty;               (* C parameter types after the container (incl. the ok_out parameter) *)
  ir_cret : cty;
  ir_w_access : recv;                (* cobj_ref / cobj_mut / cobj_base_owned + IntoInner::into_inner *)
  ir_w_convs : list conv;            (* per trait argument: how the wrapper turns the C value back *)
  ir_w_mapped : bool;                (* let ret = ret.map(|ret| ret) *)
  ir_w_tail : wtail;
  ir_i_cont : recv;                  (* ccont_ref / ccont_mut / into_ccont *)
  ir_i_guard : bool;                 (* let __ctx = ...clone() held across a consuming call *)
  ir_i_convs : list conv;            (* per trait argument: how the trait impl turns the Rust value into the C value *)
  ir_i_okout : bool;
  ir_i_tail : itail;
  ir_i_present : bool                (* false for #[vtbl_only] methods: no forwarding method in the trait re-implementation *)
}.

(* ---- the generator -------------------------------------------------------------------------------------- *)
Definition arg_cty (a : ashape * leaf) : cty :=
  let '(s, l) := a in
  match s with
  | APrim => CLeaf l | ASlice => CSliceRef l | ASliceMut => CSliceMut l | AStr => CSliceRef 0
  | AOpt => COptionC l | AOptRef => COptRefFwd l | AInto => CLeaf l | ARefMut => CRefMut l
  | ACallback => CCallback l | APod => CPod | ARef => CRef l | AIter => CIter l | AResult => CResultC l 0
  end.
Definition arg_wconv (a : ashape * leaf) : conv :=
  match fst a with ASlice | ASliceMut | AOpt | AResult => VInto | AStr => VIntoStr | _ => VId end.
Definition arg_iconv (a : ashape * leaf) : conv :=
  match fst a with ASlice | ASliceMut | AStr | AOpt | AInto | AResult => VInto | _ => VId end.

Definition is_result (r : rshape) : bool :=
  match r with QResUnitErr | QResEmpty | QResU8Err | QResIoErr => true | _ => false end.
Definition int_active (t : trait_def) (m : method) : bool :=
  is_result (m_ret m) && match m_int m with IOn => true | IOff => false | IDefault => t_int t end.

Definition gen_method (t : trait_def) (pos : nat) (m : method) : irm :=
  let l := m_retleaf m in
  let int := int_active t m in
  let base_args := map arg_cty (m_args m) in
  let '(cargs, cret, mapped, wt, okout, it) :=
    match m_ret m with
    | QUnit => (base_args, CNone, false, WRet, false, IRet)
    | QPrim => (base_args, CLeaf l, false, WRet, false, IRet)
    | QSlice => (base_args, CSliceRef l, false, WRetInto, false, IRetInto)
    | QStr => (base_args, CSliceRef 0, false, WRetInto, false, IIntoStr)
    | QOpt => (base_args, COptionC l, false, WRetInto, false, IRetInto)
    | QOptRef => (base_args, COptRefFwd l, false, WRet, false, IRet)
    | QSliceMut => (base_args, CSliceMut l, false, WRetInto, false, IRetInto)
    | QPod => (base_args, CPod, false, WRet, false, IRet)
    | QRef => (base_args, CRef l, false, WRet, false, IRet)
    | QResEmpty => if int then (base_args, CInt32, true, WInt, false, IFromIntEmpty)
                   else (base_args, CResultC 15 15, true, WRetInto, false, IRetInto)
    | QResUnitErr => if int then (base_args ++ [COkOut l], CInt32, true, WIntOut, true, IFromInt)
                     else (base_args, CResultC l 15, true, WRetInto, false, IRetInto)
    | QResU8Err => if int then (base_args ++ [COkOut l], CInt32, true, WIntOut, true, IFromInt)
                   else (base_args, CResultC l 0, true, WRetInto, false, IRetInto)
    | QResIoErr => if int then (base_args ++ [COkOut l], CInt32, true, WIntOut, true, IFromInt)
                   else (base_args, CResultC l 14, true, WRetInto, false, IRetInto)
    end in
  mkir pos pos pos (m_recv m) cargs cret (m_recv m) (map arg_wconv (m_args m)) mapped wt
       (m_recv m) (match m_recv m with ROwn => true | _ => false end) (map arg_iconv (m_args m)) okout it (negb (m_vtbl_only m)).

(* the vtable: one entry per method, in declaration order *)
Fixpoint gen_from (t : trait_def) (pos : nat) (ms : list method) : list irm :=
  match ms with [] => [] | m :: r => gen_method t pos m :: gen_from t (S pos) r end.
Definition gen_trait (t : trait_def) : list irm := gen_from t 0 (t_methods t).

(* ---- numeric encoding (must equal what harness/gen prints for the real expansion) ------------------------ *)
Definition enc_recv (r : recv) : Z := match r with RRef => 0 | RMut => 1 | ROwn => 2 end.
Definition enc_cty (c : cty) : list Z :=
  match c with
  | CNone => [0; 0] | CLeaf l => [1; l] | CSliceRef l => [2; l] | CSliceMut l => [3; l] | COptionC l => [4; l]
  | COptRefFwd l => [5; l] | CRefMut l => [6; l] | CCallback l => [7; l] | CPod => [8; 0] | CRef l => [9; l]
  | CInt32 => [1; 5] | COkOut l => [11; l] | CResultC a b => [12; a * 16 + b] | CIter l => [13; l]
  end.
Definition enc_conv (c : conv) : Z := match c with VId => 0 | VInto => 1 | VIntoStr => 2 end.
Definition enc_wtail (t : wtail) : Z := match t with WRet => 0 | WRetInto => 1 | WIntOut => 3 | WInt => 4 end.
Definition enc_itail (t : itail) : Z := match t with IRet => 0 | IRetInto => 1 | IIntoStr => 2 | IFromInt => 5 | IFromIntEmpty => 6 end.

Definition enc_irm (pos : nat) (r : irm) : list Z :=
  [nz pos; 1 (* #[repr(C)] *); 1 (* extern "C" *); enc_recv (ir_recv r); nz (length (ir_cargs r))]
  ++ flat_map enc_cty (ir_cargs r) ++ enc_cty (ir_cret r)
  ++ [bz (Nat.eqb (ir_default r) pos) (* Default vtable stores cglue_wrapped_<own name> *)]
  ++ [enc_recv (ir_w_access r); bz (Nat.eqb (ir_w_target r) pos) (* calls <ObjType as Trait>::<own name> *); 0 (* no ctx clone for unwrapped returns *);
      nz (length (ir_w_convs r))] ++ map enc_conv (ir_w_convs r)
  ++ [1; bz (ir_w_mapped r); enc_wtail (ir_w_tail r); 0]
  ++ (if ir_i_present r then
        [bz (Nat.eqb (ir_i_fetch r) pos) (* fetches the slot of its own name *); enc_recv (ir_i_cont r); bz (ir_i_guard r); 1; nz (length (ir_i_convs r))]
        ++ map enc_conv (ir_i_convs r) ++ [bz (ir_i_okout r); enc_itail (ir_i_tail r); 0]
      else [0; 9; 9; 9; 0; 9; 9; 7] (* what harness/gen prints when the re-implementation has no such method *)).

Fixpoint enc_all (pos : nat) (l : list irm) : list (list Z) :=
  match l with [] => [] | r :: t => enc_irm pos r :: enc_all (S pos) t end.

(* decoding of a trait definition from rows [recv; intmode; ret; retleaf; nargs; (shape; leaf)*] *)
Definition dec_recv (z : Z) : recv := if z =? 0 then RRef else if z =? 1 then RMut else ROwn.
Definition dec_ashape (z : Z) : ashape :=
  if z =? 0 then APrim else if z =? 1 then ASlice else if z =? 2 then ASliceMut else if z =? 3 then AStr else if z =? 4 then AOpt
  else if z =? 5 then AOptRef else if z =? 6 then AInto else if z =? 7 then ARefMut else if z =? 8 then ACallback else if z =? 9 then APod
  else if z =? 10 then ARef else if z =? 11 then AIter
  else if (z =? 12) || (z =? 13) then AResult          (* Result<T, u8>, also written std::result::Result<T, u8> *)
  else if z =? 14 then AOpt                             (* std::option::Option<T> *)
  else AIter.
Definition dec_rshape (z : Z) : rshape :=
  if z =? 0 then QUnit else if z =? 1 then QPrim else if z =? 2 then QSlice else if z =? 3 then QStr else if z =? 4 then QOpt
  else if z =? 5 then QOptRef else if z =? 6 then QResUnitErr else if z =? 7 then QResEmpty else if z =? 8 then QSliceMut
  else if z =? 9 then QPod else if z =? 10 then QRef else if (z =? 11) || (z =? 13) then QResU8Err      (* 13: std::result::Result<T, u8> *)
  else if z =? 14 then QOpt                                                                               (* std::option::Option<T> *)
  else if z =? 15 then QResUnitErr                        (* AliasRes<T, ()> in a trait marked #[int_result(AliasRes)]: one more spelling of Result *)
  else QResIoErr.
Fixpoint dec_args (n : nat) (l : list Z) : list (ashape * leaf) :=
  match n, l with
  | S n, s :: lf :: r => (dec_ashape s, lf mod 10) :: dec_args n r
  | _, _ => []
  end.
Definition dec_method (row : list Z) : option method :=
  match row with
  | r :: im :: rt :: rl :: n :: args =>
      (* bit 2 (+4): the method has a default body; bit 3 (+8): explicit lifetime generics — neither changes the generated glue *)
      let im := im mod 4 in
      (* receiver field: low 2 bits = receiver kind, bit 2 (+4) = #[vtbl_only], bit 3 (+8) = the method also carries a doc comment and an
         unrelated attribute — which changes nothing *)
      Some (mkm (dec_recv (r mod 4)) (if im =? 1 then IOn else if im =? 2 then IOff else IDefault) (dec_rshape rt) (rl mod 10) (dec_args (zn n) args) (Z.testbit r 2))
  | _ => None
  end.
Fixpoint dec_methods (rows : list (list Z)) : option (list method) :=
  match rows with
  | [] => Some []
  | r :: rs => match dec_method r, dec_methods rs with Some m, Some l => Some (m :: l) | _, _ => None end
  end.

(* #[skip_func] (receiver field bit 5, +32): the method is not exported — the definitions the generator works from are the trait WITHOUT it.  The harness
   prints [-9; has a slot; has a wrapper; has a forwarding method] for such a method, all of which must be 0; the rows of the other methods are those
   of the trait without the skipped ones (slot positions included).  Bit 6 (+64, the method is declared `extern "C"`) changes nothing. *)
Definition is_skipped (row : list Z) : bool := match row with r :: _ => Z.testbit r 5 | [] => false end.
Definition exported (rows : list (list Z)) : list (list Z) := filter (fun r => negb (is_skipped r)) rows.
Fixpoint merge_skipped (rows : list (list Z)) (irs : list (list Z)) : list (list Z) :=
  match rows with
  | [] => []
  | r :: rs => if is_skipped r then [-9; 0; 0; 0] :: merge_skipped rs irs
               else match irs with i :: rest => i :: merge_skipped rs rest | [] => [] end
  end.
(* the rows at the positions of the exported methods *)
Fixpoint strip_skipped (rows : list (list Z)) (out : list (list Z)) : list (list Z) :=
  match rows, out with
  | r :: rs, o :: os => if is_skipped r then strip_skipped rs os else o :: strip_skipped rs os
  | _, _ => []
  end.

Definition run_gen (params : list Z) (rows : list (list Z)) : list (list Z) :=
  match dec_methods (exported rows) with
  | Some ms => merge_skipped rows (enc_all 0 (gen_trait (mkt (match params with p :: _ => negb (p =? 0) | [] => false end) ms)))
  | None => [[-2]]
  end.

Definition ffi_safe_fwd (c : cty) : bool :=
  match c with CResultC _ e => negb (e =? 14) | _ => true end.

(* model id 103: the FFI-safety verdict of the whole vtable of a trait (compared with rustc's improper_ctypes lints) *)
Definition trait_ffi_safe (t : trait_def) : bool :=
  forallb (fun g => forallb ffi_safe_fwd (ir_cargs g) && ffi_safe_fwd (ir_cret g)) (gen_trait t).
Definition run_ffi (params : list Z) (rows : list (list Z)) : list (list Z) :=
  match dec_methods rows with
  | Some ms => [[bz (trait_ffi_safe (mkt (match params with p :: _ => negb (p =? 0) | [] => false end) ms))]]
  | None => [[-2]]
  end.

(* ---- meaning: values crossing the boundary ------------------------------------------------------------------ *)
(* what a trait argument / result is on the Rust side ... *)
Inductive rval :=
| RvPrim (v : Z) | RvSlice (addr len : Z) | RvStr (addr len : Z) | RvNone | RvSomeV (v : Z) | RvSomeRef (addr : Z)
| RvRef (addr : Z) | RvOpaque (tag v : Z)          (* callback / iterator / by-value struct: a (context, fn) pair or bytes, forwarded *)
| RvOk (v : Z) | RvOkUnit | RvErr (e : Z) | RvUnit.
(* ... and on the C side *)
Inductive cval :=
| CvPrim (v : Z) | CvSlice (data len : Z) | CvCOptNone | CvCOptSome (v : Z) | CvOptRef (p : Z) (* 0 = null *)
| CvPtr (p : Z) | CvOpaque (tag v : Z) | CvCResOk (v : Z) | CvCResOkUnit | CvCResErr (e : Z) | CvUnit.

(* trait impl side: Rust value -> C value.  [VInto] is the From impl selected by the two types *)
Definition to_c (c : conv) (v : rval) : option cval :=
  match c, v with
  | VId, RvPrim x => Some (CvPrim x)
  | VInto, RvPrim x => Some (CvPrim x)                              (* impl Into<T>: x.into() on the caller's side *)
  | VInto, RvSlice a n => Some (CvSlice a n)                         (* CSliceRef/CSliceMut::from(&[T]) *)
  | VInto, RvStr a n => Some (CvSlice a n)                           (* CSliceRef::from(&str) *)
  | VInto, RvNone => Some CvCOptNone | VInto, RvSomeV x => Some (CvCOptSome x)
  | VInto, RvOk x => Some (CvCResOk x) | VInto, RvErr e => Some (CvCResErr e)   (* CResult::from(Result) *)
  | VId, RvNone => Some (CvOptRef 0) | VId, RvSomeRef a => if a =? 0 then None else Some (CvOptRef a)
  | VId, RvRef a => Some (CvPtr a)
  | VId, RvOpaque t x => Some (CvOpaque t x)
  | _, _ => None
  end.
(* wrapper side: C value -> Rust value handed to the implementation *)
Definition from_c (c : conv) (s : ashape) (v : cval) : option rval :=
  match c, s, v with
  | VId, (APrim | AInto), CvPrim x => Some (RvPrim x)
  | VInto, (ASlice | ASliceMut), CvSlice a n => Some (RvSlice a n)
  | VIntoStr, AStr, CvSlice a n => Some (RvStr a n)
  | VInto, AOpt, CvCOptNone => Some RvNone | VInto, AOpt, CvCOptSome x => Some (RvSomeV x)
  | VInto, AResult, CvCResOk x => Some (RvOk x) | VInto, AResult, CvCResErr e => Some (RvErr e)
  | VId, AOptRef, CvOptRef p => Some (if p =? 0 then RvNone else RvSomeRef p)
  | VId, (ARefMut | ARef), CvPtr a => Some (RvRef a)
  | VId, (ACallback | APod | AIter), CvOpaque t x => Some (RvOpaque t x)
  | _, _, _ => None
  end.

(* is a Rust value an inhabitant of the argument shape *)
Definition arg_ok (s : ashape) (v : rval) : bool :=
  match s, v with
  | (APrim | AInto), RvPrim _ => true
  | (ASlice | ASliceMut), RvSlice _ _ => true
  | AStr, RvStr _ _ => true
  | AOpt, (RvNone | RvSomeV _) => true
  | AResult, (RvOk _ | RvErr _) => true
  | AOptRef, RvNone => true | AOptRef, RvSomeRef a => negb (a =? 0)
  | (ARefMut | ARef), RvRef _ => true
  | (ACallback | APod | AIter), RvOpaque _ _ => true
  | _, _ => false
  end.

(* one argument through both generated sides *)
Definition arg_roundtrip (a : ashape * leaf) (v : rval) : option rval :=
  match to_c (arg_iconv a) v with
  | Some c => from_c (arg_wconv a) (fst a) c
  | None => None
  end.

(* results: wrapper tail (Rust -> C, possibly writing the out slot) then trait-impl tail (C -> Rust) *)
Require Import Verif.model.IntResult.
Definition ret_ok (r : rshape) (v : rval) : bool :=
  match r, v with
  | QUnit, RvUnit => true | (QPrim | QPod), RvPrim _ => true | QPod, RvOpaque _ _ => true
  | (QSlice | QSliceMut), RvSlice _ _ => true | QStr, RvStr _ _ => true
  | QOpt, (RvNone | RvSomeV _) => true | QOptRef, RvNone => true | QOptRef, RvSomeRef a => negb (a =? 0)
  | QRef, RvRef _ => true
  | (QResUnitErr | QResU8Err | QResIoErr), (RvOk _ | RvErr _) => true
  | QResEmpty, (RvOkUnit | RvErr _) => true
  | _, _ => false
  end.

(* error values of the supported error types, as the IntResult model sees them *)
Definition err_of (r : rshape) (e : Z) : err :=
  match r with QResIoErr => EIoOs e | _ => EUnit end.
Definition etype_of_r (r : rshape) : etype := match r with QResIoErr => TIo | _ => IntResult.TUnit end.

Definition ret_through (g : irm) (r : rshape) (v : rval) : option rval :=
  match ir_w_tail g, ir_i_tail g with
  | WRet, IRet => Some v
  | WRetInto, IRetInto => Some v                 (* From impls in both directions are mutual inverses (C12) *)
  | WRetInto, IIntoStr => match v with RvStr _ _ => Some v | _ => None end
  | WIntOut, IFromInt =>
      let res := match v with RvOk x => Some (ROk x) | RvErr e => Some (RErr (err_of r e)) | _ => None end in
      match res with
      | Some res =>
          match into_int_out_result res Uninit with
          | Some (code, slot) =>
              match from_int_result (etype_of_r r) code slot with
              | Ok (ROk x) => Some (RvOk x)
              | Ok (RErr (EIoOs c)) => Some (RvErr c)
              | Ok (RErr _) => Some (RvErr 0)
              | _ => None
              end
          | None => None
          end
      | None => None
      end
  | WInt, IFromIntEmpty =>
      let res := match v with RvOkUnit => Some (ROk 0) | RvErr e => Some (RErr (err_of r e)) | _ => None end in
      match res with
      | Some res => match into_int_result res with
                    | Some code => match from_int_result_empty (etype_of_r r) code with
                                   | ROk _ => Some RvOkUnit
                                   | RErr (EIoOs c) => Some (RvErr c)
                                   | RErr _ => Some (RvErr 0)
                                   end
                    | None => None end
      | None => None
      end
  | _, _ => None                                  (* a wrapper tail paired with a decoder of another kind *)
  end.

(* ---- dispatch: a call of method k through the opaque object ------------------------------------------------
   trait impl of k fetches slot [ir_i_fetch]; that slot holds (Default vtable) the wrapper [ir_default]; that wrapper
   calls trait method [ir_w_target] with arguments converted by impl-k's conversions and then by the wrapper's *)
Definition conv_args (ic wc : list conv) (shapes : list (ashape * leaf)) (vs : list rval) : option (list rval) :=
  (fix go (ic wc : list conv) (sh : list (ashape * leaf)) (vs : list rval) : option (list rval) :=
     match ic, wc, sh, vs with
     | [], [], [], [] => Some []
     | i :: ic', w :: wc', a :: sh', v :: vs' =>
         match to_c i v with
         | Some c => match from_c w (fst a) c, go ic' wc' sh' vs' with
                     | Some r, Some rest => Some (r :: rest)
                     | _, _ => None end
         | None => None end
     | _, _, _, _ => None
     end) ic wc shapes vs.

(* which method body runs, with which arguments: None = the glue is ill-wired for this call *)
Definition dispatch (glue : list irm) (ms : list method) (k : nat) (vs : list rval) : option (nat * list rval) :=
  match nth_error glue k, nth_error ms k with
  | Some gk, Some mk =>
      match nth_error glue (ir_i_fetch gk) with
      | Some gslot =>
          match nth_error glue (ir_default gslot) with
          | Some gw =>
              match conv_args (ir_i_convs gk) (ir_w_convs gw) (m_args mk) vs with
              | Some vs' => Some (ir_w_target gw, vs')
              | None => None end
          | None => None end
      | None => None end
  | _, _ => None
  end.

(* FFI-safety of a C type by rustc's improper_ctypes rules (for the forms that occur) *)
Definition ffi_safe (c : cty) : bool := ffi_safe_fwd c.   (* CResult<T, std::io::Error>: the error type has no C repr *)

(* ---- #[cglue_forward]: the impl generated for Fwd<O> (cglue-gen/src/forward.rs, ParsedFunc::forward_wrapped_trait_impl) ----------------
   every method with a REFERENCE receiver — whether or not the trait gives it a default body — gets `let ret = (self.0).m(args); ret`;
   by-value methods are not forwarded; the handle must be DerefMut iff some forwarded method takes &mut self *)
Record fwd := mkfw { fw_target : nat; fw_convs : list conv; fw_ret_id : bool }.
Definition gen_forward_method (pos : nat) (m : method) : option fwd :=
  if m_vtbl_only m then None          (* #[vtbl_only]: not forwarded either — a call on the handle runs the trait's default body (outside C01) *)
  else match m_recv m with ROwn => None | _ => Some (mkfw pos (map (fun _ => VId) (m_args m)) true) end.
Fixpoint gen_forward_from (pos : nat) (ms : list method) : list (option fwd) :=
  match ms with [] => [] | m :: r => gen_forward_method pos m :: gen_forward_from (S pos) r end.
Definition gen_forward (t : trait_def) : list (option fwd) := gen_forward_from 0 (t_methods t).
Definition fwd_need_mut (t : trait_def) : bool :=
  existsb (fun m => negb (m_vtbl_only m) && match m_recv m with RMut => true | _ => false end) (t_methods t).

(* rows as printed by harness/gen (fwd, id 201) *)
Definition enc_fwd (pos : nat) (m : method) (f : option fwd) : list Z :=
  match f with
  | None => [0]
  | Some f => [1; bz (Nat.eqb (fw_target f) pos); nz (length (fw_convs f))] ++ map enc_conv (fw_convs f)
              ++ [bz (Nat.eqb (length (fw_convs f)) (length (m_args m))); (if fw_ret_id f then 0 else 9); 0]
  end.
Fixpoint enc_fwd_all (pos : nat) (ms : list method) (fs : list (option fwd)) : list (list Z) :=
  match ms, fs with m :: mr, f :: fr => enc_fwd pos m f :: enc_fwd_all (S pos) mr fr | _, _ => [] end.
Definition run_fwd (params : list Z) (rows : list (list Z)) : list (list Z) :=
  match dec_methods rows with
  | Some ms => let t := mkt false ms in enc_fwd_all 0 ms (gen_forward t) ++ [[bz (fwd_need_mut t)]]
  | None => [[-2]]
  end.

(* meaning: which method of the value behind the handle runs, with which arguments *)
Definition fwd_dispatch (fs : list (option fwd)) (k : nat) (vs : list rval) : option (nat * list rval) :=
  match nth_error fs k with
  | Some (Some f) => if forallb (fun c => match c with VId => true | _ => false end) (fw_convs f) && (length (fw_convs f) =? length vs)%nat && fw_ret_id f
                     then Some (fw_target f, vs) else None
  | _ => None
  end.
