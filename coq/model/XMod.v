(* C05: values created in one separately compiled module and used, cloned, cast, consumed and destroyed in another.
   Executable model of the scenario run by harness/xmod (the same source compiled twice; module 0 = host, module 1 = plugin).

   The model is split in two layers:
   - [pstep]: what the operations compute.  It never looks at the module column of an operation: a value is an opaque handle plus
     function pointers, so which module carries an operation out cannot influence its result;
   - [hstep]: bookkeeping of homes.  Every value remembers the module whose code created it (clones made through a vtable or a
     stored clone function are created by the home of the original); all function pointers stored in the value were taken there, so
     every release on behalf of the value is carried out by home code, whichever module asks.  The log records, per released block,
     (owning module, releasing module).
   NO proofs here. *)
Require Import Verif.common.Prelude.
Open Scope Z_scope.

Inductive pvalue :=
| PDead
| PCtx (tok : nat)
| PObj (seed base : Z) (tok : nat)
| PGrp (seed base : Z) (items : list Z) (store clone : bool) (tok : nat)
| PVec (elems : list Z)
| PTArc (tok : nat)          (* a TYPED CArc<Token> (not erased): clone_fn / drop_fn instantiated for Token in the creating module *)
| PBox (v : Z)               (* a typed CBox<u64> *)
| PSBox (v n : Z).           (* a typed CSliceBox<u64> of n elements v, v+1, .. *)

Definition get (p : list pvalue) (h : Z) : pvalue := if h <? 0 then PDead else nth (zn h) p PDead.
Fixpoint set_at {A} (p : list A) (i : nat) (v : A) : list A :=
  match p, i with
  | [], _ => []
  | _ :: r, O => v :: r
  | x :: r, S i => x :: set_at r i v
  end.

Definition sumz (l : list Z) : Z := fold_left Z.add l 0.
Definition label_sum (seed : Z) : Z :=
  let k := seed mod 5 + 1 in (5 + k) * 1000 + 479 + k * (97 + seed mod 26).

Definition out3 (ok r s : Z) : list Z := [ok; r; s].
Definition fail : list Z := [0; 0; -1].

(* what happened to the pool, for the bookkeeping layer *)
Inductive change :=
| CNone
| CNew                      (* a value created by the executing module was appended            *)
| CCopy (src : nat)         (* a copy of slot [src] was appended (created by the home of src) *)
| CRelease (slot : nat).    (* slot was released                                              *)

Definition pst : Type := (list pvalue * nat)%type.      (* pool, number of context tokens made so far *)

(* op = [code; m; a; b; c] — column 1 (the executing module) is not used here *)
Definition pstep (s : pst) (op : list Z) : pst * list Z * change :=
  let g := fun i => nth i op 0 in
  let h := g 2%nat in
  let '(p, nt) := s in
  let push := fun v c => ((p ++ [v], nt), out3 1 0 (nz (length p)), c) in
  let same := fun row => (s, row, CNone) in
  let upd := fun v row => ((set_at p (zn h) v, nt), row, CNone) in
  let c := g 0%nat in
  if c =? 0 then ((p ++ [PCtx nt], S nt), out3 1 0 (nz (length p)), CNew)
  else if c =? 1 then match get p h with PCtx t => push (PCtx t) (CCopy (zn h)) | _ => same fail end
  else if c =? 2 then match get p (g 3%nat) with PCtx t => push (PObj (g 2%nat) (g 2%nat) t) CNew | _ => same fail end
  else if c =? 6 then match get p (g 3%nat) with
                      | PCtx t => let e := g 4%nat in push (PGrp (g 2%nat) (g 2%nat) [] ((e =? 3) || (e =? 1)) (e =? 3) t) CNew
                      | _ => same fail
                      end
  else if c =? 3 then match get p h with
                      | PObj _ b _ => same (out3 1 b (-1))
                      | PGrp _ b _ _ _ _ => same (out3 1 b (-1))
                      | _ => same fail
                      end
  else if c =? 4 then match get p h with PObj sd b t => upd (PObj sd (b + g 3%nat) t) (out3 1 (b + g 3%nat) (-1)) | _ => same fail end
  else if c =? 18 then match get p h with PObj sd _ _ => same (out3 1 (label_sum sd) (-1)) | _ => same fail end
  else if c =? 5 then match get p h with
                      | PObj _ b _ => ((set_at p (zn h) PDead, nt), out3 1 b (-1), CRelease (zn h))
                      | PGrp _ b items _ _ _ => ((set_at p (zn h) PDead, nt), out3 1 (b + sumz items) (-1), CRelease (zn h))
                      | _ => same fail
                      end
  else if c =? 7 then match get p h with
                      | PGrp sd b items st cl t => if cl then ((p ++ [PGrp sd b items st cl t], nt), out3 1 1 (nz (length p)), CCopy (zn h)) else same (out3 1 0 (-1))
                      | _ => same fail
                      end
  else if c =? 8 then match get p h with
                      | PGrp sd b items st cl t =>
                          if st then (if Z.min (Z.max (g 3%nat) 0) 8 =? 0 then same (out3 1 0 (-1))
                                      else upd (PGrp sd b (items ++ [g 4%nat]) st cl t) (out3 1 1 (-1)))
                          else same (out3 1 (-1) (-1))
                      | _ => same fail
                      end
  else if c =? 9 then match get p h with PGrp _ _ items st _ _ => same (out3 1 (if st then sumz items else -1) (-1)) | _ => same fail end
  else if c =? 10 then match get p h with
                       | PGrp _ _ items st _ _ => same (out3 1 (if st then sumz (firstn (zn (Z.max (g 3%nat) 1)) items) else -1) (-1))
                       | _ => same fail
                       end
  else if c =? 11 then match get p h with
                       | PGrp sd b items st cl t =>
                           if st then let n := zn (Z.max (g 3%nat) 0) in
                                      upd (PGrp sd b (items ++ map (fun i => 3 * nz (S i)) (seq 0 n)) st cl t) (out3 1 (nz n) (-1))
                           else same (out3 1 (-1) (-1))
                       | _ => same fail
                       end
  else if c =? 12 then match get p h with PGrp _ _ _ st _ _ => same (out3 1 (bz st) (-1)) | _ => same fail end
  else if c =? 13 then push (PVec (map (fun i => 7 * nz i + 1) (seq 0 (zn (Z.max (g 2%nat) 0))))) CNew
  else if c =? 14 then match get p h with PVec l => upd (PVec (l ++ [g 3%nat])) (out3 1 (nz (length l) + 1) (-1)) | _ => same fail end
  else if c =? 19 then match get p h with
                       | PVec l => let i := zn (Z.max (g 3%nat) 0) in
                                   if (i <=? length l)%nat then upd (PVec (firstn i l ++ g 4%nat :: skipn i l)) (out3 1 (nz (length l) + 1) (-1))
                                   else same (out3 1 (-1) (-1))
                       | _ => same fail
                       end
  else if c =? 20 then match get p h with
                       | PVec l => match rev l with
                                   | [] => same (out3 1 (-1) (-1))
                                   | x :: r => upd (PVec (rev r)) (out3 1 x (-1))
                                   end
                       | _ => same fail
                       end
  else if c =? 21 then match get p h with
                       | PVec l => let i := zn (Z.max (g 3%nat) 0) in
                                   if (i <? length l)%nat then upd (PVec (firstn i l ++ skipn (S i) l)) (out3 1 (nth i l 0) (-1))
                                   else same (out3 1 (-1) (-1))
                       | _ => same fail
                       end
  else if c =? 22 then match get p h with PVec _ => same (out3 1 1 (-1)) | _ => same fail end
  else if c =? 23 then match get p h with PVec l => push (PVec l) CNew | _ => same fail end
  else if (c =? 15) || (c =? 16) then match get p h with PVec l => same (out3 1 (sumz l) (-1)) | _ => same fail end
  else if c =? 24 then ((p ++ [PTArc nt], S nt), out3 1 0 (nz (length p)), CNew)
  else if c =? 25 then match get p h with PTArc t => push (PTArc t) (CCopy (zn h)) | _ => same fail end
  else if c =? 26 then match get p h with   (* into_opaque: a move — the erased handle keeps the stored functions, hence the home *)
                       | PTArc t => ((set_at p (zn h) PDead ++ [PCtx t], nt), out3 1 0 (nz (length p)), CCopy (zn h))
                       | _ => same fail end
  else if c =? 27 then push (PBox (g 2%nat)) CNew
  else if c =? 28 then match get p h with PBox v => same (out3 1 v (-1)) | _ => same fail end
  else if c =? 29 then push (PSBox (g 2%nat) (Z.max 0 (g 3%nat))) CNew
  else if c =? 30 then match get p h with PSBox v n => same (out3 1 (n * v + n * (n - 1) / 2) (-1)) | _ => same fail end
  else if c =? 17 then match get p h with
                       | PDead => same fail
                       | _ => ((set_at p (zn h) PDead, nt), out3 1 0 (-1), CRelease (zn h))
                       end
  else same fail.

(* ---- homes ------------------------------------------------------------------------------------------------ *)
Record hst := mkh { homes : list nat; hlog : list (nat * nat) }.

Definition hstep (s : hst) (m : nat) (c : change) : hst :=
  match c with
  | CNone => s
  | CNew => mkh (homes s ++ [m]) (hlog s)
  | CCopy src => mkh (homes s ++ [nth src (homes s) 0%nat]) (hlog s)
  | CRelease slot => let hm := nth slot (homes s) 0%nat in mkh (homes s) (hlog s ++ [(hm, hm)])   (* routed through the stored function pointer *)
  end.

Definition module_of (op : list Z) : nat := zn (nth 1 op 0 mod 2).

Fixpoint run_ops (s : pst) (hs : hst) (ops : list (list Z)) : pst * hst * list (list Z) :=
  match ops with
  | [] => (s, hs, [])
  | o :: r =>
      let '(s1, row, c) := pstep s o in
      let '(s2, hs2, rows) := run_ops s1 (hstep hs (module_of o) c) r in
      (s2, hs2, row :: rows)
  end.

(* after the script every live value is released (the harness alternates the releasing module; routing sends it home) *)
Definition is_live (v : pvalue) : bool := match v with PDead => false | _ => true end.
Definition cleanup (s : pst) (hs : hst) : pst * hst :=
  ((map (fun _ => PDead) (fst s), snd s),
   mkh (homes hs) (hlog hs ++ flat_map (fun vh : pvalue * nat => if is_live (fst vh) then [(snd vh, snd vh)] else []) (combine (fst s) (homes hs)))).

Definition is_inst (v : pvalue) : bool := match v with PObj _ _ _ | PGrp _ _ _ _ _ _ => true | _ => false end.
Definition live_instances (k : nat) (p : list pvalue) (hm : list nat) : Z :=
  nz (length (filter (fun vh : pvalue * nat => is_inst (fst vh) && Nat.eqb (snd vh) k) (combine p hm))).
Definition holds (t : nat) (v : pvalue) : bool :=
  match v with PCtx t' => Nat.eqb t t' | PObj _ _ t' => Nat.eqb t t' | PGrp _ _ _ _ _ t' => Nat.eqb t t' | PTArc t' => Nat.eqb t t' | _ => false end.
Fixpoint token_homes (ops : list (list Z)) : list nat :=
  match ops with
  | [] => []
  | o :: r => if (nth 0 o 0 =? 0) || (nth 0 o 0 =? 24) then module_of o :: token_homes r else token_homes r
  end.
Definition live_tokens (k : nat) (p : list pvalue) (th : list nat) : Z :=
  nz (length (filter (fun it : nat * nat => Nat.eqb (snd it) k && existsb (holds (fst it)) p) (combine (seq 0 (length th)) th))).
Definition misrouted (k : nat) (l : list (nat * nat)) : Z :=
  nz (length (filter (fun e : nat * nat => Nat.eqb (snd e) k && negb (Nat.eqb (fst e) (snd e))) l)).

Definition relabel (ops : list (list Z)) : list (list Z) :=
  map (fun o => match o with c :: _ :: r => c :: 0 :: r | _ => o end) ops.

(* model 5.  params: single (1 = reference run: one module).  output: one row per op, then per module [-1; k; live; tokens; 0; misrouted; 0; 0] *)
Definition run_xmod (params : list Z) (rows : list (list Z)) : list (list Z) :=
  let single := match params with x :: _ => zb x | [] => false end in
  let ops := if single then relabel rows else rows in
  let '(s, hs, out) := run_ops ([], 0%nat) (mkh [] []) ops in
  let '(f, fh) := cleanup s hs in
  let th := token_homes ops in
  let stat := fun k => [-1; nz k; live_instances k (fst f) (homes fh); live_tokens k (fst f) th; 0; misrouted k (hlog fh); 0; 0] in
  out ++ (if single then [stat 0%nat] else [stat 0%nat; stat 1%nat]).
