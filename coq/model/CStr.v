(* Executable model of cglue/src/repr_cstring.rs.  NO proofs.
   A ReprCString is a pointer to the first byte of an allocation; its length is recomputed
   by scanning for NUL on every access and on drop.  The allocation (bytes + the size the
   allocator was told) is explicit so that scanning past the end and freeing with another
   size are visible outcomes. *)
Require Import Verif.common.Prelude.
Open Scope Z_scope.

Record cstring := mkc { bytes : list Z; alloc_size : nat; leaked_extra : nat }.
(* leaked_extra: bytes of auxiliary allocations made by the constructor and never freed *)

(* unsafe fn string_size: number of bytes up to and including the first NUL; None = the scan
   left the allocation (out-of-bounds read) *)
Fixpoint string_size (b : list Z) : option nat :=
  match b with
  | [] => None
  | x :: r => if x =? 0 then Some 1%nat else option_map S (string_size r)
  end.

Fixpoint prefix_to_nul (b : list Z) : list Z :=
  match b with
  | [] => []
  | x :: r => if x =? 0 then [] else x :: prefix_to_nul r
  end.

(* From<&str>: bytes().take_while(!=0).chain(Some(0)).collect().into_boxed_slice() *)
Definition from_str (input : list Z) : cstring :=
  let b := prefix_to_nul input ++ [0] in mkc b (length b) 0.

(* From<&[u8]>, as it is in the tree the model was written against AFTER the repair:
   same construction as From<&str>.  [from_bytes_v0] is the code before the repair
   (Box::new(from.to_vec().into_boxed_slice()): the bytes as they are, outer box leaked). *)
Definition from_bytes (input : list Z) : cstring := from_str input.
(* From<String>: from.as_str().into() *)
Definition from_string (input : list Z) : cstring := from_str input.
Definition from_bytes_v0 (input : list Z) : cstring := mkc input (length input) 16.

(* AsRef<str>: from_raw_parts(ptr, string_size(ptr) - 1) *)
Definition as_ref (c : cstring) : outcome (list Z) :=
  match string_size (bytes c) with
  | Some n => Ok (firstn (n - 1) (bytes c))
  | None => UB
  end.

(* Drop: Box::from_raw(from_raw_parts_mut(ptr, string_size(ptr))) — frees with the scanned size *)
Definition drop_cstring (c : cstring) : outcome nat :=
  match string_size (bytes c) with
  | Some n => if (n =? alloc_size c)%nat then Ok n else UB     (* dealloc with a size that is not the allocation's *)
  | None => UB
  end.

(* Clone: self.as_ref().into() *)
Definition clone_cstring (c : cstring) : outcome cstring :=
  match as_ref c with Ok s => Ok (from_str s) | _ => UB end.

(* PartialEq / Hash (ReprCString and ReprCStr alike): `self.as_ref().eq(other.as_ref())`, `self.as_ref().hash(state)` —
   both are functions of the scanned text only; the hashed key IS the text *)
Definition eq_cstring (a b : cstring) : outcome bool :=
  match as_ref a, as_ref b with
  | Ok x, Ok y => Ok (if list_eq_dec Z.eq_dec x y then true else false)
  | _, _ => UB
  end.
Definition hash_key (a : cstring) : outcome (list Z) := as_ref a.

(* ReprCStr<'a>: a pointer to the first byte of memory owned by somebody else ([mem] = the bytes from that pointer to the
   end of the foreign allocation); AsRef<str> scans from it: from_raw_parts(ptr, string_size(ptr) - 1) *)
Definition borrowed_as_ref (mem : list Z) : outcome (list Z) :=
  match string_size mem with
  | Some n => Ok (firstn (n - 1) mem)
  | None => UB
  end.
(* Borrow<ReprCStr> for ReprCString: the same pointer, viewed as the borrowed type *)
Definition borrow_cstring (c : cstring) : list Z := bytes c.

(* output row of one case: constructor kind k (0 = From<&str>, 1 = From<&[u8]>, 2 = ReprCStr from &CStr, 3 = From<String>) and input bytes:
   [ok; leaked; len; read-back bytes...] ; clone row ; eq/hash row *)
Definition run_case (row : list Z) : list Z :=
  match row with
  | k :: input =>
      let c := if k =? 0 then from_str input else if k =? 3 then from_string input else from_bytes input in
      match as_ref c, clone_cstring c with
      | Ok s, Ok c2 =>
          match as_ref c2, drop_cstring c, drop_cstring c2 with
          | Ok s2, Ok n1, Ok n2 =>
              [1; nz (leaked_extra c); nz n1; nz n2; bz (if list_eq_dec Z.eq_dec s s2 then true else false); nz (length s)] ++ s
          | _, _, _ => [-1]
          end
      | _, _ => [-1]
      end
  | _ => [-2]
  end.

Definition run_cstr (params : list Z) (rows : list (list Z)) : list (list Z) := map run_case rows.
