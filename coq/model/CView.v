(* What a foreign caller that knows only the published C declarations does with the runtime
   values, expressed on the same field-level models as the Rust operations (model/Arc.v,
   model/Vec.v, model/Callback.v), plus the small models used only by the C16 harness
   (box release, slice views, enum tags, sizes).  NO proofs. *)
Require Import Verif.common.Prelude Verif.model.Layout.
From Verif.model Require Import Arc Vec Callback IntResult.
From Coq Require Import String.
Open Scope string_scope.
Open Scope nat_scope.

(* ---- box: `if (self->drop_fn && self->instance) self->drop_fn(self->instance);` ---------------- *)
Record cbox := mkbox { b_inst : option Z; b_drop : option nat }.   (* instance (payload token) ; drop_fn (module) *)
Definition c_box_release (b : cbox) : list Z * cbox :=
  match b_drop b, b_inst b with
  | Some _, Some v => ([v], b)          (* drop_fn(instance): destructor of the payload runs, memory freed *)
  | _, _ => ([], b)
  end.
(* Drop for CBox: if let Some(drop_fn) = self.drop_fn.take() { drop_fn(self.instance) } — instance is a non-null reference *)
Definition rust_box_drop (b : cbox) : list Z * cbox :=
  match b_drop b with
  | Some _ => (match b_inst b with Some v => [v] | None => [] end, mkbox (b_inst b) None)
  | None => ([], b)
  end.

(* ---- arc through its three fields ----------------------------------------------------------------- *)
(* ret.instance = clone_fn(instance); ret.clone_fn = clone_fn; ret.drop_fn = drop_fn  (guarded by a null test) *)
Definition c_arc_clone (s : st) (h : nat) : outcome (st * list Z * list aev) :=
  match get_h s h with
  | HArc None _ _ => newslot s (HArc None None None) 6 []
  | HArc (Some a) (Some c) d =>
      match arc_inc s a c with Ok (s', ev) => newslot s' (HArc (Some a) (Some c) d) 6 ev | _ => UB end
  | HSome a c d =>
      match arc_inc s a c with Ok (s', ev) => newslot s' (HSome a c d) 6 ev | _ => UB end
  | HArc (Some _) None _ => UB
  | _ => rej s 6
  end.
(* if (drop_fn && instance) drop_fn(instance) *)
Definition c_arc_release (s : st) (h : nat) : outcome (st * list Z * list aev) :=
  match get_h s h with
  | HArc (Some a) c (Some d) =>
      match arc_dec s a d with Ok (s', ev) => Ok (set_h s' h HDead, [12; 1; -1]%Z, ev) | _ => UB end
  | HArc _ _ _ => Ok (set_h s h HDead, [12; 1; -1]%Z, [])
  | HSome a c (Some d) =>
      match arc_dec s a d with Ok (s', ev) => Ok (set_h s' h HDead, [12; 1; -1]%Z, ev) | _ => UB end
  | HSome a c None => Ok (set_h s h HDead, [12; 1; -1]%Z, [])
  | _ => rej s 12
  end.

(* ---- vector: grow through reserve_fn, write the cell, bump len; release through drop_fn --------- *)
Section V.
Variable grow : nat -> nat -> nat -> nat.
Definition c_vec_push (v : cvec) (x : Z) : outcome cvec :=
  match (if cap v <? len v then UB else if cap v - len v <? 1 then reserve_fn grow v 1 else Ok v) with
  | Ok v1 => if cap v1 <=? len v1 then UB else
             match set_cell (buf v1) (len v1) x with
             | Some b => Ok (mkv b (S (len v1)) (cap v1) (acap v1))
             | None => UB end
  | _ => UB
  end.
Definition c_vec_release (v : cvec) : outcome (list Z) := drop_vec v.     (* drop_fn(data, len, capacity) *)
End V.

(* ---- callback / iterator: invoke func(context, item) until false; advance until non-zero ---------- *)
Definition c_feed (items : list Z) (s : sink) : sink * nat * list Z := feed_loop items s 0.
Definition c_advance (src : source) : outcome (option Z * source) :=
  let '(code, out, r) := tramp src Uninit in
  if Z.eqb code 0 then match out with Filled e => Ok (Some e, r) | Uninit => UB end else Ok (None, r).

(* ---- harness-only rows ------------------------------------------------------------------------------ *)
Open Scope Z_scope.
Definition norm_elem (elem v : Z) : Z :=
  if elem =? 0 then v mod 256 else if elem =? 4 then v mod 16777216 else v.

Definition enum_tag (e : string) (v : string) : Z :=
  match find (fun d => String.eqb (e_name d) e) published_enums with
  | Some d => match tag_of (e_variants d) v 0 with Some t => nz t | None => -1 end
  | None => -1
  end.

(* kind 7 row [k; v]: COption<u8,u64,E3,E16> then CResult<u64,u8>, CResult<E16,E3> as (tag, payload) pairs *)
Definition tags_row (k v : Z) : list Z :=
  let some := negb (k =? 0) in
  let ot := if some then enum_tag "COption" "Some" else enum_tag "COption" "None" in
  let rt := if some then enum_tag "CResult" "Err" else enum_tag "CResult" "Ok" in
  let p (e : Z) := if some then norm_elem e v else 0 in
  [ot; p 0; ot; p 1; ot; p 4; ot; p 5;
   rt; (if some then norm_elem 0 v else v); rt; (if some then norm_elem 4 v else v)].

(* kind 6 row [n; seed; i; w]: contents of the viewed buffer after writing w at index i through the mutable view *)
Definition slice_row (elem n seed i w : Z) : list Z :=
  n :: map (fun k => if (nz k =? i) then norm_elem elem w else norm_elem elem (seed + nz k)) (seq 0 (zn n)).

(* kind 8: sizes/alignments computed by the layout function from the published declarations *)
Definition size_of_decl (n : string) (esz eal : nat) : nat :=
  match find_s published n with
  | Some d => let '(_, sz, _) := layout (map (fun f => sa esz eal (snd f)) (s_fields d)) in sz
  | None => 0%nat end.
Definition align_of_decl (n : string) (esz eal : nat) : nat :=
  match find_s published n with
  | Some d => let '(_, _, al) := layout (map (fun f => sa esz eal (snd f)) (s_fields d)) in al
  | None => 0%nat end.
(* #[repr(C)] enum with fields = struct { c_int tag; union of payloads } *)
Definition enum_layout (payloads : list (nat * nat)) : nat * nat :=
  let usz := fold_right Nat.max 0%nat (map fst payloads) in
  let ual := fold_right Nat.max 1%nat (map snd payloads) in
  let '(_, sz, al) := layout [(4, 4); (round_up usz ual, ual)]%nat in (sz, al).
Definition sizes_row : list Z :=
  map nz [size_of_decl "CBox" 8 8; align_of_decl "CBox" 8 8; size_of_decl "CArc" 8 8; size_of_decl "CArcSome" 8 8;
          size_of_decl "CSliceRef" 1 1; size_of_decl "CSliceMut" 16 16; size_of_decl "CVec" 3 1; size_of_decl "Callback" 8 8; size_of_decl "CIterator" 16 16;
          fst (enum_layout [(1, 1)]); fst (enum_layout [(8, 8)]); fst (enum_layout [(3, 1)]); fst (enum_layout [(16, 16)]);
          fst (enum_layout [(8, 8); (1, 1)]); fst (enum_layout [(16, 16); (3, 1)]); snd (enum_layout [(16, 16)]); snd (enum_layout [(8, 8); (1, 1)])]%nat.

Definition run_c16 (params : list Z) (rows : list (list Z)) : list (list Z) :=
  match params with
  | [1; _] => map (fun r => match r with [v] => [v] | _ => [-2] end) rows
  | [6; elem] => map (fun r => match r with [n; seed; i; w] => slice_row elem n seed i w | _ => [-2] end) rows
  | [7; _] => map (fun r => match r with [k; v] => tags_row k v | _ => [-2] end) rows
  | [8; _] => [sizes_row]
  | _ => [[-3]]
  end.
