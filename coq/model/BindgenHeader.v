(* cglue-bindgen, C mode, at the level of declaration blocks (C18): which blocks of the input survive, in which order, and in which
   order the copies of context-generic structs are emitted.  Executable model, NO proofs here.

   A header is a list of blocks; the tool treats a block as context-generic when it is a `typedef struct X_Context {..} X_Context;`
   (whatever X is), and emits one copy per known context in the iteration order of its context collection.  That order is the point of
   the reproducibility part of C18: [ordered] (read from the source by the translator) says whether the collection iterates in sorted
   order (BTreeSet) or in an order chosen per process (HashSet with RandomState), modelled by an arbitrary permutation [hash]. *)
Require Import Verif.common.Prelude Verif.model.Group.

Inductive hblock :=
| HForeign (id : nat)                 (* a declaration that does not belong to a cglue construct, kept verbatim *)
| HGeneric (id : nat) (foreign : bool) (* `typedef struct .._Context { .. } .._Context;` — foreign = true: a user struct that merely has such a name *)
| HCglue (id : nat).                  (* any other cglue construct: not tracked *)

Inductive oblock :=
| OForeign (id : nat)
| OCopy (id : nat) (ctx : tinfo).     (* the copy of generic block [id] for context [ctx] *)

Definition iter_order (ordered : bool) (hash : list tinfo -> list tinfo) (inserted : list tinfo) : list tinfo :=
  if ordered then sort_ti inserted else hash inserted.

Definition expand (order : list tinfo) (b : hblock) : list oblock :=
  match b with
  | HForeign id => [OForeign id]
  | HGeneric id _ => map (OCopy id) order
  | HCglue _ => []
  end.

Definition process (order : list tinfo) (h : list hblock) : list oblock := flat_map (expand order) h.

(* the foreign declarations of a header / of an output, in order *)
Definition foreign_in (h : list hblock) : list nat :=
  flat_map (fun b => match b with HForeign id => [id] | HGeneric id true => [id] | _ => [] end) h.
Definition foreign_out (o : list oblock) : list nat :=
  flat_map (fun b => match b with OForeign id => [id] | _ => [] end) o.

(* model 118.  params: ordered.  rows: [n contexts] ; context names (insertion order) ; blocks [kind; id] (kind 0 foreign, 1 generic, 2 foreign
   struct named like a generic one, 3 other).  output: [0; id] / [1; id; insertion index of the context] in output order *)
Fixpoint take_ctxs (n : nat) (k : nat) (rows : list (list Z)) : list tinfo * list (list Z) :=
  match n with
  | O => ([], rows)
  | S n => match rows with
           | r :: rest => let '(cs, rest') := take_ctxs n (S k) rest in (mkti k r :: cs, rest')
           | [] => ([], [])
           end
  end.

Definition block_of_row (r : list Z) : hblock :=
  match r with
  | [0%Z; id] => HForeign (zn id)
  | [1%Z; id] => HGeneric (zn id) false
  | [2%Z; id] => HGeneric (zn id) true
  | [_; id] => HCglue (zn id)
  | _ => HCglue O
  end.

Definition run_header (params : list Z) (rows : list (list Z)) : list (list Z) :=
  match rows with
  | [n] :: rest =>
      let '(cs, rest') := take_ctxs (zn n) O rest in
      let ordered := match params with o :: _ => zb o | [] => false end in
      map (fun o => match o with OForeign id => [0%Z; nz id] | OCopy id c => [1%Z; nz id; nz (ti_idx c)] end)
          (process (iter_order ordered (fun l => l) cs) (map block_of_row rest'))
  | _ => [[-2]%Z]
  end.
