(* Executable model of cglue/src/arc.rs: CArc<T> / CArcSome<T> at the level of their three
   fields, over a table of reference-counted allocations.  NO proofs here.

   A stored function pointer is modelled by the id of the module whose code it points to
   ([option nat] for Option<fn>, [nat] for a bare fn); an allocation remembers the module
   that created it.  Every count change is logged with the module that executed it. *)
Require Import Verif.common.Prelude.

Inductive handle :=
| HDead                                                     (* slot moved out / dropped *)
| HArc (inst : option nat) (clone_fn drop_fn : option nat)  (* CArc<T>     *)
| HSome (inst : nat) (clone_fn : nat) (drop_fn : option nat)(* CArcSome<T> *)
| HStd (inst : nat) (m : nat).                              (* a std::sync::Arc<T> held by module m *)

Record arc := mka { strong : nat; payload : Z; owner : nat }.   (* strong = 0 <=> freed *)

(* events: count increment / decrement of allocation a executed by code of module m;
   destructor of the payload of a *)
Inductive aev := AInc (a m : nat) | ADec (a m : nat) | ADropPayload (a : nat) (v : Z).

Record st := mks { pool : list handle; arcs : list arc }.

Definition get_h (s : st) (i : nat) : handle := nth i (pool s) HDead.
Fixpoint set_nth {A} (l : list A) (i : nat) (x : A) : list A :=
  match l, i with
  | [], _ => []
  | _ :: t, 0 => x :: t
  | h :: t, S i => h :: set_nth t i x
  end.
Definition set_h (s : st) (i : nat) (h : handle) : st := mks (set_nth (pool s) i h) (arcs s).
Definition add_h (s : st) (h : handle) : st := mks (pool s ++ [h]) (arcs s).

(* Arc::clone through c_clone (instantiated in module m): Arc::from_raw; clone; into_raw x2 *)
Definition arc_inc (s : st) (a m : nat) : outcome (st * list aev) :=
  match nth_error (arcs s) a with
  | Some r => if strong r =? 0 then UB      (* use after free *)
              else Ok (mks (pool s) (set_nth (arcs s) a (mka (S (strong r)) (payload r) (owner r))), [AInc a m])
  | None => UB
  end.

(* drop of one Arc through c_drop (module m) *)
Definition arc_dec (s : st) (a m : nat) : outcome (st * list aev) :=
  match nth_error (arcs s) a with
  | Some r => match strong r with
              | 0 => UB                       (* double free *)
              | 1 => Ok (mks (pool s) (set_nth (arcs s) a (mka 0 (payload r) (owner r))), [ADec a m; ADropPayload a (payload r)])
              | S n => Ok (mks (pool s) (set_nth (arcs s) a (mka n (payload r) (owner r))), [ADec a m])
              end
  | None => UB
  end.

(* Drop for CArcSome: if let Some(drop_fn) = self.drop_fn { drop_fn(Some(self.instance)) } *)
Definition drop_some (s : st) (inst : nat) (drop_fn : option nat) : outcome (st * list aev) :=
  match drop_fn with
  | Some m => arc_dec s inst m
  | None => Ok (s, [])
  end.

(* Drop for CArc: reinterpret as CArcSome when instance.is_some() *)
Definition drop_arc (s : st) (inst : option nat) (clone_fn drop_fn : option nat) : outcome (st * list aev) :=
  match inst with
  | None => Ok (s, [])
  | Some a => drop_some s a drop_fn       (* clone_fn is not looked at by drop *)
  end.

Definition drop_handle (s : st) (h : handle) : outcome (st * list aev) :=
  match h with
  | HDead => Ok (s, [])
  | HArc i c d => drop_arc s i c d
  | HSome i c d => drop_some s i d
  | HStd a m => arc_dec s a m
  end.

Inductive aop :=
| ANewArc (m : nat) (v : Z)          (* CArc::from(value) in module m      -> new slot *)
| ANewSome (m : nat) (v : Z)         (* CArcSome::from(value)              -> new slot *)
| ANewStd (m : nat) (v : Z)          (* Arc::new(value)                    -> new slot *)
| AFromStd (h : nat)                 (* CArc::from(Arc) (slot h consumed)  -> new slot *)
| ASomeFromStd (h : nat)             (* CArcSome::from(Arc)                -> new slot *)
| AFromNone                          (* CArc::from(None::<Arc<T>>) / Default -> new slot *)
| AClone (h : nat)                   (* clone of any handle kind           -> new slot *)
| ATake (h : nat)                    (* CArc::take                         -> new slot, h left empty *)
| AToSome (h : nat)                  (* CArc::transpose -> Option<CArcSome>: h consumed, Some -> new slot *)
| AToOpt (h : nat)                   (* CArcSome::transpose -> CArc:        h consumed -> new slot *)
| AOpaque (h : nat)                  (* into_opaque: bit move, h consumed  -> new slot *)
| AIntoArc (h : nat)                 (* CArcSome::into_arc (same module)   -> new slot (std Arc) *)
| ADrop (h : nat).

(* result row codes: [code; ok(1)/rejected(0); new-slot-or-minus-1] *)
Definition rej (s : st) (c : Z) : outcome (st * list Z * list aev) := Ok (s, [c; 0; -1]%Z, []).
Definition newslot (s : st) (h : handle) (c : Z) (ev : list aev) : outcome (st * list Z * list aev) :=
  Ok (add_h s h, [c; 1; nz (length (pool s))]%Z, ev).

Definition astep (s : st) (o : aop) : outcome (st * list Z * list aev) :=
  match o with
  | ANewArc m v =>
      let a := length (arcs s) in
      newslot (mks (pool s) (arcs s ++ [mka 1 v m])) (HArc (Some a) (Some m) (Some m)) 0 []
  | ANewSome m v =>
      let a := length (arcs s) in
      newslot (mks (pool s) (arcs s ++ [mka 1 v m])) (HSome a m (Some m)) 1 []
  | ANewStd m v =>
      let a := length (arcs s) in
      newslot (mks (pool s) (arcs s ++ [mka 1 v m])) (HStd a m) 2 []
  | AFromStd h =>
      match get_h s h with
      | HStd a m => newslot (set_h s h HDead) (HArc (Some a) (Some m) (Some m)) 3 []   (* Arc::into_raw: no count change *)
      | _ => rej s 3
      end
  | ASomeFromStd h =>
      match get_h s h with
      | HStd a m => newslot (set_h s h HDead) (HSome a m (Some m)) 4 []
      | _ => rej s 4
      end
  | AFromNone => newslot s (HArc None None None) 5 []
  | AClone h =>
      match get_h s h with
      | HArc None _ _ => newslot s (HArc None None None) 6 []            (* None => Default::default() *)
      | HArc (Some a) (Some c) d =>
          (* as CArcSome: instance = clone_fn(instance).unwrap(), ..*self ; then Some(arc).into() *)
          match arc_inc s a c with
          | Ok (s', ev) => newslot s' (HArc (Some a) (Some c) d) 6 ev
          | _ => UB
          end
      | HArc (Some _) None _ => UB                                        (* null fn pointer called *)
      | HSome a c d =>
          match arc_inc s a c with
          | Ok (s', ev) => newslot s' (HSome a c d) 6 ev
          | _ => UB
          end
      | HStd a m =>
          match arc_inc s a m with
          | Ok (s', ev) => newslot s' (HStd a m) 6 ev
          | _ => UB
          end
      | HDead => rej s 6
      end
  | ATake h =>
      match get_h s h with
      | HArc i c d => newslot (set_h s h (HArc None None None)) (HArc i c d) 7 []
      | _ => rej s 7
      end
  | AToSome h =>
      match get_h s h with
      | HArc None c d => Ok (set_h s h HDead, [8; 1; -1]%Z, [])          (* `?` on None; the emptied CArc drops as a no-op *)
      | HArc (Some a) (Some c) d => newslot (set_h s h HDead) (HSome a c d) 8 []
      | HArc (Some a) None d =>
          (* instance already taken, `_ => None`: nobody releases the count any more: a leak,
             reported as UB of the model (unreachable from well-formed handles) *)
          UB
      | _ => rej s 8
      end
  | AToOpt h =>
      match get_h s h with
      | HSome a c d => newslot (set_h s h HDead) (HArc (Some a) (Some c) d) 9 []  (* drop_fn.take(): source drops as no-op *)
      | _ => rej s 9
      end
  | AOpaque h =>
      match get_h s h with
      | HArc i c d => newslot (set_h s h HDead) (HArc i c d) 10 []
      | HSome a c d => newslot (set_h s h HDead) (HSome a c d) 10 []
      | _ => rej s 10
      end
  | AIntoArc h =>
      match get_h s h with
      | HSome a c (Some d) => newslot (set_h s h HDead) (HStd a d) 11 []   (* mem::forget(self); Arc::from_raw *)
      | HSome a c None => UB                                                  (* would mint an unowned Arc *)
      | _ => rej s 11
      end
  | ADrop h =>
      match get_h s h with
      | HDead => rej s 12
      | hh => match drop_handle s hh with
              | Ok (s', ev) => Ok (set_h s' h HDead, [12; 1; -1]%Z, ev)
              | _ => UB
              end
      end
  end.

(* ---- observation ------------------------------------------------------------------- *)
(* per slot: kind (0 dead, 1 empty CArc, 2 non-empty CArc, 3 CArcSome, 4 std Arc), strong
   count of the target, payload the handle dereferences to *)
Definition obs_h (s : st) (h : handle) : list Z :=
  let tgt a := match nth_error (arcs s) a with
               | Some r => [nz (strong r); payload r]
               | None => [-1; -1]%Z end in
  match h with
  | HDead => [0; 0; 0]%Z
  | HArc None _ _ => [1; 0; 0]%Z
  | HArc (Some a) _ _ => 2%Z :: tgt a
  | HSome a _ _ => 3%Z :: tgt a
  | HStd a _ => 4%Z :: tgt a
  end.
Definition obs (s : st) : list Z := flat_map (obs_h s) (pool s).

Definition drops_of (ev : list aev) : list Z :=
  flat_map (fun e => match e with ADropPayload _ v => [v] | _ => [] end) ev.

Definition init : st := mks [] [].

(* run: per op three rows: result, payload destructors that ran, observation of the pool *)
Fixpoint arun_raw (s : st) (ops : list aop) : list (list Z) * option st :=
  match ops with
  | [] => ([], Some s)
  | o :: os => match astep s o with
               | Ok (s', r, ev) => let '(rows, fin) := arun_raw s' os in (r :: drops_of ev :: obs s' :: rows, fin)
               | _ => ([[-1]%Z], None)
               end
  end.

(* a script is followed by the release of every slot, in slot order *)
Definition arun (s : st) (ops : list aop) : list (list Z) :=
  match arun_raw s ops with
  | (rows, Some s') => rows ++ fst (arun_raw s' (map ADrop (seq 0 (length (pool s')))))
  | (rows, None) => rows
  end.

Definition decode_aop (row : list Z) : option aop :=
  match row with
  | [0; m; v]%Z => Some (ANewArc (zn m) v)
  | [1; m; v]%Z => Some (ANewSome (zn m) v)
  | [2; m; v]%Z => Some (ANewStd (zn m) v)
  | [3; h]%Z => Some (AFromStd (zn h))
  | [4; h]%Z => Some (ASomeFromStd (zn h))
  | [5]%Z => Some AFromNone
  | [6; h]%Z => Some (AClone (zn h))
  | [7; h]%Z => Some (ATake (zn h))
  | [8; h]%Z => Some (AToSome (zn h))
  | [9; h]%Z => Some (AToOpt (zn h))
  | [10; h]%Z => Some (AOpaque (zn h))
  | [11; h]%Z => Some (AIntoArc (zn h))
  | [12; h]%Z => Some (ADrop (zn h))
  | _ => None
  end.

Fixpoint decode_rows {A} (d : list Z -> option A) (rows : list (list Z)) : option (list A) :=
  match rows with
  | [] => Some []
  | r :: rs => match d r, decode_rows d rs with
               | Some a, Some l => Some (a :: l)
               | _, _ => None
               end
  end.

Definition run_carc (params : list Z) (rows : list (list Z)) : list (list Z) :=
  match decode_rows decode_aop rows with
  | Some ops => arun init ops
  | None => [[-2]%Z]
  end.

(* ---- which module's code changed the counts (case id 210) ---------------------------------------------------------
   the harness builds handles of module 1 through the published three-field layout with COUNTING clone/drop functions
   of its own; per operation it reports how often each of them ran.  The model's event log says the same thing. *)
Definition incs_by (m : nat) (ev : list aev) : nat :=
  length (filter (fun e => match e with AInc _ m' => m' =? m | _ => false end) ev).
Definition decs_by (m : nat) (ev : list aev) : nat :=
  length (filter (fun e => match e with ADec _ m' => m' =? m | _ => false end) ev).
Definition calls_of (m : nat) (ev : list aev) : list Z := [nz (incs_by m ev); nz (decs_by m ev)].

Fixpoint arun_calls_raw (s : st) (ops : list aop) : list (list Z) * option st :=
  match ops with
  | [] => ([], Some s)
  | o :: os => match astep s o with
               | Ok (s', r, ev) => let '(rows, fin) := arun_calls_raw s' os in (r :: calls_of 1 ev :: rows, fin)
               | _ => ([[-1]%Z], None)
               end
  end.
Definition arun_calls (s : st) (ops : list aop) : list (list Z) :=
  match arun_calls_raw s ops with
  | (rows, Some s') => rows ++ fst (arun_calls_raw s' (map ADrop (seq 0 (length (pool s')))))
  | (rows, None) => rows
  end.
Definition run_carc_calls (params : list Z) (rows : list (list Z)) : list (list Z) :=
  match decode_rows decode_aop rows with
  | Some ops => arun_calls init ops
  | None => [[-2]%Z]
  end.

(* ---- what ONE thread observes while other threads change the counts (case id 110) ------------------------------
   every thread runs the same history on a pool of its own over SHARED allocations; the result rows and the kinds of
   its handles do not depend on the counts (proofs/ArcProofs.v: thread_view), so they are those of the sequential run *)
Fixpoint kinds_of (o : list Z) : list Z := match o with k :: _ :: _ :: rest => k :: kinds_of rest | _ => [] end.
Fixpoint proj_thread (rows : list (list Z)) : list (list Z) :=
  match rows with r :: _ :: o :: rest => r :: kinds_of o :: proj_thread rest | other => other end.
Definition run_carc_threads (params : list Z) (rows : list (list Z)) : list (list Z) := proj_thread (run_carc [] rows).
