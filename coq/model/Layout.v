(* repr(C) layout algorithm and the vocabulary in which struct declarations (Rust side, from the
   translator; C side, from the bindgen patterns / published headers; the property's own list)
   are compared.  NO proofs. *)
Require Import Verif.common.Prelude.
From Coq Require Import String.
Open Scope string_scope.
Open Scope nat_scope.

Inductive fkind :=
| KPtr                      (* &T, &mut T, *const T, *mut T, NonNull<T>, Option<&T> : one pointer *)
| KFnPtr (nargs : nat)      (* extern "C" fn pointer (possibly wrapped in Option: nullable)        *)
| KUsize                    (* usize / uintptr_t                                                   *)
| KInt (bytes : nat)        (* fixed-width integer / bool                                          *)
| KPhantom                  (* zero-sized marker: no C counterpart                                 *)
| KElem                     (* a value of the element type T, stored inline                        *)
| KAdt (name : string)      (* another struct by value                                             *)
| KOther (s : string).

Record sdef := mksdef { s_name : string; s_repr : string; s_fields : list (string * fkind) }.
Record edef := mkedef { e_name : string; e_repr : string; e_variants : list (string * nat) }.   (* variant, #fields *)

Definition fkind_eqb (a b : fkind) : bool :=
  match a, b with
  | KPtr, KPtr | KUsize, KUsize | KPhantom, KPhantom | KElem, KElem => true
  | KFnPtr n, KFnPtr m => Nat.eqb n m
  | KInt n, KInt m => Nat.eqb n m
  | KAdt x, KAdt y => String.eqb x y
  | _, _ => false
  end.

Definition visible (fs : list (string * fkind)) : list (string * fkind) :=
  filter (fun f => negb (fkind_eqb (snd f) KPhantom)) fs.

Fixpoint fields_eqb (a b : list (string * fkind)) : bool :=
  match a, b with
  | [], [] => true
  | (n, k) :: a', (m, j) :: b' => String.eqb n m && fkind_eqb k j && fields_eqb a' b'
  | _, _ => false
  end.

(* a declaration agrees with the published one: same visible fields, same order, same kinds; C-defined repr *)
Definition compat (published : sdef) (d : sdef) : bool :=
  String.eqb (s_name published) (s_name d) && fields_eqb (visible (s_fields published)) (visible (s_fields d)).

Definition has_c_repr (d : sdef) : bool := String.eqb (s_repr d) "C" || String.eqb (s_repr d) "transparent".

Fixpoint find_s (l : list sdef) (n : string) : option sdef :=
  match l with [] => None | d :: r => if String.eqb (s_name d) n then Some d else find_s r n end.

(* every published struct is found among the declarations, with a C repr (when [need_repr]) and compatible fields *)
Definition all_compat (need_repr : bool) (published decls : list sdef) : bool :=
  forallb (fun p => match find_s decls (s_name p) with
                    | Some d => compat p d && (negb need_repr || has_c_repr d)
                    | None => false end) published.

(* every given declaration (C side: bindgen patterns, published headers) agrees with the published struct of that name *)
Definition decls_compat (published decls : list sdef) : bool :=
  forallb (fun d => match find_s published (s_name d) with Some p => compat p d | None => false end) decls.

(* ---- repr(C) layout: offset = previous end rounded up to the field's alignment ------------------ *)
Definition round_up (x a : nat) : nat := if a =? 0 then x else ((x + a - 1) / a) * a.

Fixpoint place (off : nat) (fs : list (nat * nat)) : list nat * nat * nat :=   (* offsets, end, max align *)
  match fs with
  | [] => ([], off, 1)
  | (sz, al) :: r =>
      let o := round_up off al in
      let '(os, e, m) := place (o + sz) r in
      (o :: os, e, Nat.max al m)
  end.
Definition layout (fs : list (nat * nat)) : list nat * nat * nat :=   (* offsets, size, align *)
  let '(os, e, m) := place 0 fs in (os, round_up e m, m).

(* size/alignment of a field kind on the 64-bit target; T = (esz, eal) *)
Definition sa (esz eal : nat) (k : fkind) : nat * nat :=
  match k with
  | KPtr | KFnPtr _ | KUsize => (8, 8)
  | KInt n => (n, n)
  | KPhantom => (0, 1)
  | KElem => (esz, eal)
  | _ => (0, 1)
  end.

(* the property's own list of published declarations *)
Definition published : list sdef := [
  mksdef "CBox" "C" [("instance", KPtr); ("drop_fn", KFnPtr 1)];
  mksdef "CArc" "C" [("instance", KPtr); ("clone_fn", KFnPtr 1); ("drop_fn", KFnPtr 1)];
  mksdef "CArcSome" "C" [("instance", KPtr); ("clone_fn", KFnPtr 1); ("drop_fn", KFnPtr 1)];
  mksdef "CSliceRef" "C" [("data", KPtr); ("len", KUsize)];
  mksdef "CSliceMut" "C" [("data", KPtr); ("len", KUsize)];
  mksdef "CSliceBox" "C" [("instance", KAdt "CSliceMut"); ("drop_fn", KFnPtr 1)];
  mksdef "CVec" "C" [("data", KPtr); ("len", KUsize); ("capacity", KUsize); ("drop_fn", KFnPtr 3); ("reserve_fn", KFnPtr 2)];
  mksdef "Callback" "C" [("context", KPtr); ("func", KFnPtr 2)];
  mksdef "CIterator" "C" [("iter", KPtr); ("func", KFnPtr 2)]
].
(* the object itself, as every header shows it and as the wrappers of the post-processor address it (`self.vtbl`, `self.container`,
   `container.instance`, `container.context`): the vtable pointer first, then the container {instance, context, temporary storage} *)
Definition object_layout : list sdef := [
  mksdef "CGlueTraitObj" "C" [("vtbl", KPtr); ("container", KAdt "CGlueObjContainer")];
  mksdef "CGlueObjContainer" "C" [("instance", KElem); ("context", KElem); ("ret_tmp", KElem)]
].
Definition published_enums : list edef := [
  mkedef "COption" "C" [("None", 0); ("Some", 1)];
  mkedef "CResult" "C" [("Ok", 1); ("Err", 1)]
].

Definition edef_eqb (a b : edef) : bool :=
  String.eqb (e_name a) (e_name b) && String.eqb (e_repr a) (e_repr b) &&
  (fix go (x y : list (string * nat)) : bool :=
     match x, y with
     | [], [] => true
     | (n, k) :: x', (m, j) :: y' => String.eqb n m && Nat.eqb k j && go x' y'
     | _, _ => false
     end) (e_variants a) (e_variants b).
Definition enums_ok (decls : list edef) : bool :=
  forallb (fun p => existsb (edef_eqb p) decls) published_enums.

(* tag value of a variant = its position (repr(C) enum without explicit discriminants) *)
Fixpoint tag_of (vs : list (string * nat)) (n : string) (i : nat) : option nat :=
  match vs with [] => None | (m, _) :: r => if String.eqb m n then Some i else tag_of r n (S i) end.

(* field names that the C snippets of the header post-processor dereference on a struct *)
Definition snippet_fields_ok (decls : list sdef) (uses : list (string * list string)) : bool :=
  forallb (fun u : string * list string => match find_s decls (fst u) with
              | Some d => forallb (fun f => existsb (fun g => String.eqb (fst g) f) (s_fields d)) (snd u)
              | None => false end) uses.
