(* Executable model of cglue/src/slice.rs (views), option.rs, result.rs (CResult), tuple.rs
   and of the UTF-8 decision that TryFrom<CSliceRef<u8>> for &str makes.  NO proofs. *)
Require Import Verif.common.Prelude.
Open Scope Z_scope.

(* ---- slice views: {data, len} over a flat memory -------------------------------------------- *)
Record cslice := mksl { data : nat; slen : nat }.
Definition from_slice (a n : nat) : cslice := mksl a n.                 (* s.as_ptr(), s.len() *)
Definition as_slice (c : cslice) : nat * nat := (data c, slen c).        (* from_raw_parts(data, len) *)
(* write through a CSliceMut (DerefMut / as_slice_mut): cell data+i of the same memory *)
Definition write_through (mem : list Z) (c : cslice) (i : nat) (v : Z) : option (list Z) :=
  if (i <? slen c)%nat then set_cell mem (data c + i) v else None.
Definition read_view (mem : list Z) (c : cslice) : option (list Z) := region mem (data c) (slen c).

(* ---- COption / CResult / CTupN: variant-by-variant conversions ---------------------------------- *)
Inductive coption := CNone | CSome (v : Z).           (* #[repr(C)] enum: tags 0, 1 *)
Definition copt_from (o : option Z) : coption := match o with None => CNone | Some v => CSome v end.
Definition copt_into (c : coption) : option Z := match c with CNone => None | CSome v => Some v end.
Inductive cresult := COk (v : Z) | CErr (e : Z).
Definition cres_from (r : Z + Z) : cresult := match r with inl v => COk v | inr e => CErr e end.
Definition cres_into (c : cresult) : Z + Z := match c with COk v => inl v | CErr e => inr e end.
(* CTupN(a, b, ..) <-> (a, b, ..): positional *)
Definition ctup_from (t : list Z) : list Z := t.
Definition ctup_into (t : list Z) : list Z := t.

(* ---- UTF-8 ------------------------------------------------------------------------------------------ *)
Definition inr_ (lo hi b : Z) : bool := (lo <=? b) && (b <=? hi).
Definition cont (b : Z) : bool := inr_ 128 191 b.

(* Unicode Table 3-7, well-formed UTF-8 byte sequences *)
Fixpoint utf8_valid (bs : list Z) : bool :=
  match bs with
  | [] => true
  | b0 :: r0 =>
      if inr_ 0 127 b0 then utf8_valid r0
      else match r0 with
      | [] => false
      | b1 :: r1 =>
          if inr_ 194 223 b0 then cont b1 && utf8_valid r1
          else match r1 with
          | [] => false
          | b2 :: r2 =>
              if inr_ 224 239 b0 then
                (if b0 =? 224 then inr_ 160 191 b1 else if b0 =? 237 then inr_ 128 159 b1 else cont b1)
                && cont b2 && utf8_valid r2
              else match r2 with
              | [] => false
              | b3 :: r3 =>
                  if inr_ 240 244 b0 then
                    (if b0 =? 240 then inr_ 144 191 b1 else if b0 =? 244 then inr_ 128 143 b1 else cont b1)
                    && cont b2 && cont b3 && utf8_valid r3
                  else false
              end
          end
      end
  end.

(* TryFrom<CSliceRef<u8>> for &str: core::str::from_utf8 on from_raw_parts(data,len) *)
Definition try_into_str (bs : list Z) : option (list Z) := if utf8_valid bs then Some bs else None.

(* ---- codec ------------------------------------------------------------------------------------------
   row [0; b..]          utf-8 decision            -> [&str from CSliceRef; &str from CSliceMut; &mut str from CSliceMut]
   row [1; k; v]         COption k=0 None,1 Some v -> [tag; payload]   (tag of the C enum, payload 0 for None)
   row [2; k; v]         CResult k=0 Ok v,1 Err v  -> [tag; payload]
   row [3; v..]          CTupN                      -> v..
   row [4; a; n; i; v]   slice view at offset a len n over memory 0..15 (cells i -> 100+i), write v at i
                                                   -> [a; n; ok; memory after..]                                *)
Definition run_case12 (row : list Z) : list Z :=
  match row with
  | 0 :: bs => (* the four checked conversions (&str / &mut str from CSliceRef / CSliceMut) share one decision *)
      [bz (utf8_valid bs); bz (utf8_valid bs); bz (utf8_valid bs)]
  | [1; k; v] => let c := copt_from (if k =? 0 then None else Some v) in
                 (match c with CNone => [0; 0] | CSome x => [1; x] end) ++
                 (match copt_into c with None => [0; 0] | Some x => [1; x] end)
  | [2; k; v] => let c := cres_from (if k =? 0 then inl v else inr v) in
                 (match c with COk x => [0; x] | CErr x => [1; x] end) ++
                 (match cres_into c with inl x => [0; x] | inr x => [1; x] end)
  | 3 :: t => ctup_into (ctup_from t)
  | [4; a; n; i; v] =>
      let mem := map (fun k => 100 + nz k) (seq 0 16) in
      let c := from_slice (zn a) (zn n) in
      let '(a', n') := as_slice c in
      match write_through mem c (zn i) v with
      | Some m => [nz a'; nz n'; 1] ++ m
      | None => [nz a'; nz n'; 0] ++ mem
      end
  | _ => [-2]
  end.

Definition run_slice (params : list Z) (rows : list (list Z)) : list (list Z) := map run_case12 rows.
