(* Lifecycle / context model (C06, C07): a pool of opaque objects derived from values, all
   sharing one reference-counted context.  Each transition is transcribed from the code path it
   stands for (generated wrappers and trait re-implementations, CBox, Opaquable, casts):
     create            = CBox::from (allocation) + context clone made by the caller
     owned child       = ref receiver + wrapped return: `let cglue_ctx = cglue_ctx.clone()` then trait_obj!((ret, ctx))
     borrowed child    = wrap_with_obj_ref: a context clone is written into the MaybeUninit return slot of the
                         container, overwritten by the next call, never dropped (the known finding F-C07)
     consuming child   = owned receiver: cobj_base_owned + IntoInner::into_inner (no destructor, value moves on),
                         context MOVED into the result; the caller-side guard clone lives across the call
     consuming plain   = the same, the moved context is dropped by the wrapper, the guard by the caller
     clone             = -> Self return: re-boxed with a cloned context
     failed cast       = the group is destructured by move and `?` drops the container (instance and context)
   NO proofs. *)
Require Import Verif.common.Prelude.
Open Scope Z_scope.

Inductive lh :=
| LDead
| LNode (id : Z) | LChild (id : Z) | LCl (id : Z)
| LRef (id : Z)                      (* owns instance id and its sub-instance id+500 *)
| LGrp (id : Z) (clone_on : bool) | LGrpC (id : Z).

Record lst := mkl {
  lpool : list lh;
  level : Z;                         (* context clones alive, above the baseline *)
  leaked : Z;                        (* of which: clones parked in return slots that nobody will drop *)
  live : Z                           (* payload instances alive *)
}.

Inductive lop :=
| OCreateNode (id : Z) | OCreateCl (id : Z) | OCreateRef (id : Z) | OCreateGrp (id : Z) (e : Z)
| OCall (h : nat) | OChild (h : nat) | OChildRef (h : nat) | OIntoChild (h : nat) | OFin (h : nat)
| OClone (h : nat) | ODrop (h : nat) | OCast (h : nat) | OUpcast (h : nat)
| OLastRefFin (id : Z) | OLastRefIntoChild (id : Z)
| OCreateZst (id : Z).               (* a boxed single-trait object around a ZERO-SIZED instance: no allocation, but a destructor *)

Definition lget (s : lst) (h : nat) : lh := nth h (lpool s) LDead.
Fixpoint lset {A} (l : list A) (i : nat) (x : A) : list A :=
  match l, i with [], _ => [] | _ :: t, O => x :: t | a :: t, S i => a :: lset t i x end.

(* result row, destructor ids in order *)
Definition lout : Type := (list Z * list Z)%type.
Definition lrej (s : lst) (c : Z) : lst * lout := (s, ([c; 0; -1], [])).
Definition lnew (s : lst) (h : lh) (c : Z) (dlevel dlive : Z) (drops : list Z) : lst * lout :=
  (mkl (lpool s ++ [h]) (level s + dlevel) (leaked s) (live s + dlive), ([c; 1; nz (length (lpool s))], drops)).
Definition lkill (s : lst) (i : nat) : lst := mkl (lset (lpool s) i LDead) (level s) (leaked s) (live s).

Definition lstep (s : lst) (o : lop) : lst * lout :=
  match o with
  | OCreateNode id => lnew s (LNode id) 0 1 1 []
  | OCreateCl id => lnew s (LCl id) 8 1 1 []
  | OCreateRef id => lnew s (LRef id) 9 1 2 []
  | OCreateGrp id e => lnew s (LGrp id (Z.odd e)) 10 1 1 []
  | OCall h => match lget s h with
               | LNode _ | LChild _ | LGrp _ _ | LGrpC _ => (s, ([1; 1; -1], []))
               | _ => lrej s 1 end
  | OChild h => match lget s h with
                | LNode id => lnew s (LChild (id + 100)) 2 1 1 []
                | _ => lrej s 2 end
  | OChildRef h => match lget s h with
                   | LRef id => (mkl (lpool s) (level s + 1) (leaked s + 1) (live s), ([3; 1; -1], []))
                   | _ => lrej s 3 end
  | OIntoChild h => match lget s h with
                    | LNode id => lnew (lkill s h) (LChild (id + 200)) 4 0 0 [id]
                    | _ => lrej s 4 end
  | OFin h => match lget s h with
              | LNode id => (mkl (lset (lpool s) h LDead) (level s - 1) (leaked s) (live s - 1), ([5; 1; -1], [id]))
              | _ => lrej s 5 end
  | OClone h => match lget s h with
                | LCl id => lnew s (LCl (id + 1000)) 6 1 1 []
                | LGrpC id => lnew s (LGrpC (id + 1000)) 6 1 1 []
                | _ => lrej s 6 end
  | ODrop h => match lget s h with
               | LDead => lrej s 7
               | LRef id => (mkl (lset (lpool s) h LDead) (level s - 1) (leaked s) (live s - 2), ([7; 1; -1], [id; id + 500]))
               | LNode id | LChild id | LCl id | LGrp id _ | LGrpC id =>
                   (mkl (lset (lpool s) h LDead) (level s - 1) (leaked s) (live s - 1), ([7; 1; -1], [id]))
               end
  | OCast h => match lget s h with
               | LGrp id true => lnew (lkill s h) (LGrpC id) 11 0 0 []
               | LGrp id false => (mkl (lset (lpool s) h LDead) (level s - 1) (leaked s) (live s - 1), ([11; 1; -1], [id]))
               | _ => lrej s 11 end
  | OUpcast h => match lget s h with
                 | LGrpC id => lnew (lkill s h) (LGrp id true) 12 0 0 []
                 | _ => lrej s 12 end
  | OLastRefFin id => (s, ([13; 1; -1], [id]))
  | OLastRefIntoChild id => (s, ([14; 1; -1], [id; id + 200]))
  | OCreateZst id => lnew s (LChild id) 15 1 1 []
  end.

Definition linit : lst := mkl [] 0 0 0.

Fixpoint lrun_raw (s : lst) (ops : list lop) : list (list Z) * lst :=
  match ops with
  | [] => ([], s)
  | o :: os => let '(s', (r, ds)) := lstep s o in
               let '(rows, fin) := lrun_raw s' os in
               (r :: (level s' :: live s' :: ds) :: rows, fin)
  end.
Definition lrun (ops : list lop) : list (list Z) :=
  let '(rows, s') := lrun_raw linit ops in
  rows ++ fst (lrun_raw s' (map ODrop (seq 0 (length (lpool s'))))).

Definition dec_lop (row : list Z) : option lop :=
  match row with
  | [0; id] => Some (OCreateNode id) | [8; id] => Some (OCreateCl id) | [9; id] => Some (OCreateRef id)
  | [10; id; e] => Some (OCreateGrp id e)
  | [1; h] => Some (OCall (zn h)) | [2; h] => Some (OChild (zn h)) | [3; h] => Some (OChildRef (zn h))
  | [4; h] => Some (OIntoChild (zn h)) | [5; h] => Some (OFin (zn h)) | [6; h] => Some (OClone (zn h))
  | [7; h] => Some (ODrop (zn h)) | [11; h] => Some (OCast (zn h)) | [12; h] => Some (OUpcast (zn h))
  | [13; id] => Some (OLastRefFin id) | [14; id] => Some (OLastRefIntoChild id) | [15; id] => Some (OCreateZst id)
  | _ => None
  end.
Fixpoint dec_lops (rows : list (list Z)) : option (list lop) :=
  match rows with [] => Some [] | r :: rs => match dec_lop r, dec_lops rs with Some a, Some l => Some (a :: l) | _, _ => None end end.
Definition run_life (params : list Z) (rows : list (list Z)) : list (list Z) :=
  match dec_lops rows with Some ops => lrun ops | None => [[-2]] end.

(* ---- casts (C08): success of the five operations as a function of the enabled and requested sets ------------------ *)
(* bit i of a mask = optional trait i of the group, in the group's (sorted) order *)
Definition subset_mask (r e : Z) : bool := Z.land r e =? r.
(* per op row [castop; req] on a group built from a type with enabled set e:
   [castop; req; success; peek; a; b; c; enabled-after-upcast] as printed by harness/prog (instance id 3) *)
Definition cast_row (e castop req : Z) : list Z :=
  let req := Z.max 1 (Z.min 7 req) in
  let ok := subset_mask req e in
  let call (bit : Z) (v : Z) := if ok && negb (castop =? 0) && negb (Z.land req bit =? 0) then v else -1 in
  [castop; req; bz ok; (if ok && negb (castop =? 0) then 30 else -1); call 1 31; call 2 37; call 4 33;
   (if ok && (castop =? 3) then e else -1)].
Definition run_casts (params : list Z) (rows : list (list Z)) : list (list Z) :=
  match params with
  | e :: _ => map (fun r => match r with [castop; req] => cast_row (Z.land e 7) castop req | _ => [-2] end) rows
  | _ => [[-2]]
  end.
