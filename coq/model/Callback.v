(* Executable model of cglue/src/callback.rs (OpaqueCallback, FeedCallback, FromExtend,
   Extend for OpaqueCallback) and cglue/src/iter.rs (CIterator).  NO proofs. *)
Require Import Verif.common.Prelude.
Require Import Verif.model.IntResult.   (* slot *)
Open Scope Z_scope.

(* ---- sinks: what sits behind the (context, trampoline) pair ------------------------------ *)
Inductive sink_kind :=
| SClosure (stop_at : nat)     (* FnMut(T)->bool returning false on its stop_at-th call (0 = never) *)
| SVec                         (* From<&mut Vec<T>>: push, true *)
| SExtend.                     (* from_extend(): extend(Some(x)), true *)

Record sink := mksink { kind : sink_kind; got : list Z }.   (* got: items received, oldest first *)

(* OpaqueCallback::call = (self.0.func)(self.0.context, arg) *)
Definition call (s : sink) (v : Z) : sink * bool :=
  let s' := mksink (kind s) (got s ++ [v]) in
  match kind s with
  | SClosure 0 => (s', true)
  | SClosure k => (s', negb (Nat.eqb (length (got s')) k))
  | SVec | SExtend => (s', true)
  end.

(* impl FeedCallback for I: let mut cnt = 0; for v in self { cnt += 1; if !callback.call(v) { break; } } cnt
   returns (sink, count, items never offered — they are dropped with the source iterator) *)
Fixpoint feed_loop (items : list Z) (s : sink) (cnt : nat) : sink * nat * list Z :=
  match items with
  | [] => (s, cnt, [])
  | v :: rest =>
      let cnt := S cnt in
      let '(s', go) := call s v in
      if go then feed_loop rest s' cnt else (s', cnt, rest)
  end.
Definition feed_into_mut (items : list Z) (s : sink) : sink * nat * list Z := feed_loop items s 0.

(* impl Extend for OpaqueCallback: for item in iter { if !self.call(item) { break; } } *)
Fixpoint extend_loop (items : list Z) (s : sink) : sink * list Z :=
  match items with
  | [] => (s, [])
  | v :: rest => let '(s', go) := call s v in if go then extend_loop rest s' else (s', rest)
  end.

(* ---- CIterator ----------------------------------------------------------------------------- *)
(* a source iterator is the script of what its successive next() calls return; after the
   script it returns None forever (non-fused sources have None in the middle) *)
Definition source := list (option Z).
Definition src_next (s : source) : option Z * source :=
  match s with [] => (None, []) | y :: r => (y, r) end.

(* extern "C" fn func(iter, out): match iter.next() { Some(e) => { out.write(e); 0 } None => 1 } *)
Definition tramp (s : source) (out : slot) : Z * slot * source :=
  match src_next s with
  | (Some e, r) => (0, Filled e, r)
  | (None, r) => (1, out, r)
  end.

(* Iterator for CIterator: let mut out = uninit(); if func(iter,&mut out) == 0 { Some(out.assume_init()) } else { None } *)
Definition citer_next (s : source) : outcome (option Z * source) :=
  let '(code, out, r) := tramp s Uninit in
  if code =? 0 then match out with Filled e => Ok (Some e, r) | Uninit => UB end
  else Ok (None, r).

(* ---- codec -----------------------------------------------------------------------------------
   feed case row:  [0; sinkkind; stop_at; method; items...]   method 0 feed_into_mut / 1 extend / 2 feed_into (by value) / 3,4 manual loop over Callbackable::call (same loop as feed)
       output: [count or -1] ; got ; never-offered
   iter case row:  [1; nops; ops(0 wrapper-next / 1 direct-next)... ; script (v>=0 => Some v, -1 => None)...]
       output: one cell pair per op [1 v | 0 0] flattened ; *)
Definition dec_sink (k stop : Z) : sink :=
  mksink (if k =? 0 then SClosure (zn stop) else if k =? 1 then SVec else SExtend) [].

Fixpoint run_iter_ops (ops : list Z) (s : source) : list Z :=
  match ops with
  | [] => []
  | o :: os =>
      if o =? 0 then
        match citer_next s with
        | Ok (Some v, r) => 1 :: v :: run_iter_ops os r
        | Ok (None, r) => 0 :: 0 :: run_iter_ops os r
        | _ => [-1]
        end
      else
        match src_next s with
        | (Some v, r) => 1 :: v :: run_iter_ops os r
        | (None, r) => 0 :: 0 :: run_iter_ops os r
        end
  end.

Definition run_case15 (row : list Z) : list (list Z) :=
  match row with
  | 0 :: k :: stop :: m :: items =>
      let s := dec_sink k stop in
      if m =? 1 then let '(s', rest) := extend_loop items s in [[-1]; got s'; rest]
      else let '(s', cnt, rest) := feed_into_mut items s in [[nz cnt]; got s'; rest]
  | 2 :: stop :: m :: n1 :: tl =>
      (* ONE closure callback fed twice (by reference: feed_into_mut or extend), then called once more: the callback layer keeps no state of its
         own, so the second feed is simply the feed function applied to the sink as the first feed left it.
         output: [count 1] ; [count 2] ; everything the closure received ; never offered in feed 1 ; never offered in feed 2 ; [result of the last call] *)
      let xs := firstn (zn n1) tl in
      let ys := [900; 901; 902] in
      let s0 := dec_sink 0 stop in
      let feed := fun (items : list Z) (s : sink) =>
        if m =? 1 then let '(s', rest) := extend_loop items s in (s', -1, rest)
        else let '(s', cnt, rest) := feed_into_mut items s in (s', nz cnt, rest) in
      let '(s1, c1, r1) := feed xs s0 in
      let '(s2, c2, r2) := feed ys s1 in
      let '(s3, go) := call s2 903 in
      [[c1]; [c2]; got s3; r1; r2; [bz go]]
  | 1 :: n :: tl =>
      let ops := firstn (zn n) tl in
      let script := map (fun v => if v <? 0 then None else Some v) (skipn (zn n) tl) in
      [run_iter_ops ops script]
  | _ => [[-2]]
  end.

Definition run_cb (params : list Z) (rows : list (list Z)) : list (list Z) := flat_map run_case15 rows.
