(* Executable model of cglue/src/task/mod.rs: the borrowed CRefWaker handed into a poll and
   the owned foreign-side wakers (BaseArc<CRawWaker>) cloned from it.  NO proofs.

   [wstep] is the code as repaired by the "fix:" commit (CRawWaker releases its clone of the
   caller's waker in Drop, i.e. when the last foreign handle goes away; wake = wake_by_ref +
   release of the handle).  [wstep_v0] is the code before the repair (every foreign-side
   wake/drop releases the shared clone). *)
Require Import Verif.common.Prelude.
From Verif.model Require Import Arc.   (* set_nth *)

Record rec := mkr { rc : nat; inner_live : bool }.     (* BaseArc count; is the inner clone of the caller's waker still held *)
Record wst := mkw { recs : list rec; handles : list (option nat); wakes : nat; orig_clones : nat }.

Inductive wop :=
| WCloneInPoll            (* cx.waker().clone() inside the poll: CRefWaker clone -> waker_clone + BaseArc::new *)
| WWakeByRefInPoll        (* cx.waker().wake_by_ref() inside the poll *)
| WClone (h : nat) | WWake (h : nat) | WWakeByRef (h : nat) | WDrop (h : nat)
| WEndPoll.               (* poll returns; no effect on the waker state *)

Definition get_rec (s : wst) (r : nat) : option rec := nth_error (recs s) r.
Definition handle_of (s : wst) (h : nat) : option nat := match nth_error (handles s) h with Some (Some r) => Some r | _ => None end.

Definition rejw (s : wst) (c : Z) : outcome (wst * list Z) := Ok (s, [c; 0; -1]%Z).

(* release of one BaseArc reference to record r; at zero the CRawWaker is dropped *)
Definition release_handle (fixed : bool) (s : wst) (r : nat) : outcome wst :=
  match get_rec s r with
  | Some x =>
      match rc x with
      | 0 => UB                                          (* BaseArc::from_raw of a freed record *)
      | 1 => if fixed then
               (if inner_live x then
                  Ok (mkw (set_nth (recs s) r (mkr 0 false)) (handles s) (wakes s) (orig_clones s - 1))
                else UB)                                  (* Drop for CRawWaker would release the clone twice *)
             else Ok (mkw (set_nth (recs s) r (mkr 0 (inner_live x))) (handles s) (wakes s) (orig_clones s))
      | S n => Ok (mkw (set_nth (recs s) r (mkr n (inner_live x))) (handles s) (wakes s) (orig_clones s))
      end
  | None => UB
  end.

Definition kill_handle (s : wst) (h : nat) : wst := mkw (recs s) (set_nth (handles s) h None) (wakes s) (orig_clones s).

Definition wstep_gen (fixed : bool) (s : wst) (o : wop) : outcome (wst * list Z) :=
  match o with
  | WCloneInPoll =>
      Ok (mkw (recs s ++ [mkr 1 true]) (handles s ++ [Some (length (recs s))]) (wakes s) (S (orig_clones s)),
          [0; 1; nz (length (handles s))]%Z)
  | WWakeByRefInPoll => Ok (mkw (recs s) (handles s) (S (wakes s)) (orig_clones s), [1; 1; -1]%Z)
  | WClone h =>
      match handle_of s h with
      | Some r => match get_rec s r with
                  | Some x => if rc x =? 0 then UB else
                      Ok (mkw (set_nth (recs s) r (mkr (S (rc x)) (inner_live x))) (handles s ++ [Some r]) (wakes s) (orig_clones s),
                          [2; 1; nz (length (handles s))]%Z)
                  | None => UB end
      | None => rejw s 2
      end
  | WWake h =>
      match handle_of s h with
      | Some r => match get_rec s r with
                  | Some x =>
                      if negb (inner_live x) then UB else      (* wakes through a released clone *)
                      let s1 := mkw (recs s) (handles s) (S (wakes s)) (orig_clones s) in
                      if fixed then
                        match release_handle true (kill_handle s1 h) r with
                        | Ok s2 => Ok (s2, [3; 1; -1]%Z) | _ => UB end
                      else
                        (* vtable.wake(this.waker): Waker::wake consumes the shared clone *)
                        let s1' := mkw (set_nth (recs s1) r (mkr (rc x) false)) (handles s1) (wakes s1) (orig_clones s1 - 1) in
                        match release_handle false (kill_handle s1' h) r with
                        | Ok s2 => Ok (s2, [3; 1; -1]%Z) | _ => UB end
                  | None => UB end
      | None => rejw s 3
      end
  | WWakeByRef h =>
      match handle_of s h with
      | Some r => match get_rec s r with
                  | Some x => if negb (inner_live x) then UB else
                      Ok (mkw (recs s) (handles s) (S (wakes s)) (orig_clones s), [4; 1; -1]%Z)
                  | None => UB end
      | None => rejw s 4
      end
  | WDrop h =>
      match handle_of s h with
      | Some r => match get_rec s r with
                  | Some x =>
                      if fixed then
                        match release_handle true (kill_handle s h) r with
                        | Ok s2 => Ok (s2, [5; 1; -1]%Z) | _ => UB end
                      else
                        if negb (inner_live x) then UB else   (* vtable.drop(this.waker): second release *)
                        let s1 := mkw (set_nth (recs s) r (mkr (rc x) false)) (handles s) (wakes s) (orig_clones s - 1) in
                        match release_handle false (kill_handle s1 h) r with
                        | Ok s2 => Ok (s2, [5; 1; -1]%Z) | _ => UB end
                  | None => UB end
      | None => rejw s 5
      end
  | WEndPoll => Ok (s, [6; 1; -1]%Z)
  end.

Definition wstep := wstep_gen true.
Definition wstep_v0 := wstep_gen false.
Definition winit : wst := mkw [] [] 0 0.

Fixpoint wrun_raw (s : wst) (ops : list wop) : list (list Z) * option wst :=
  match ops with
  | [] => ([], Some s)
  | o :: os => match wstep s o with
               | Ok (s', r) => let '(rows, fin) := wrun_raw s' os in (r :: [nz (wakes s'); nz (orig_clones s')] :: rows, fin)
               | _ => ([[-1]%Z], None)
               end
  end.
(* after the script every remaining handle is dropped, in slot order *)
Definition wrun (ops : list wop) : list (list Z) :=
  match wrun_raw winit ops with
  | (rows, Some s') => rows ++ fst (wrun_raw s' (map WDrop (seq 0 (length (handles s')))))
  | (rows, None) => rows
  end.

Definition decode_wop (row : list Z) : option wop :=
  match row with
  | [0]%Z => Some WCloneInPoll | [1]%Z => Some WWakeByRefInPoll
  | [2; h]%Z => Some (WClone (zn h)) | [3; h]%Z => Some (WWake (zn h))
  | [4; h]%Z => Some (WWakeByRef (zn h)) | [5; h]%Z => Some (WDrop (zn h))
  | [6]%Z => Some WEndPoll
  | [7]%Z => Some WEndPoll      (* the executor drops its own waker: no effect on the foreign side's state; printed like an end of poll *)
  | _ => None
  end.
Fixpoint decode_ws (rows : list (list Z)) : option (list wop) :=
  match rows with
  | [] => Some []
  | r :: rs => match decode_wop r, decode_ws rs with Some a, Some l => Some (a :: l) | _, _ => None end
  end.
Definition run_waker (params : list Z) (rows : list (list Z)) : list (list Z) :=
  match decode_ws rows with Some ops => wrun ops | None => [[-2]%Z] end.
