(* Executable model of cglue/src/boxed.rs: CBox<T> and CSliceBox<T> at the level of their two fields
   (instance, drop_fn) over the values they own.  NO proofs here.

     CBox::from(T) / from(Box<T>) / from((T, NoContext))  : Box::leak, drop_fn = Some(cglue_drop_box::<T>)
     CSliceBox::from(Box<[T]>)                             : Box::leak(..).into(), drop_fn = Some(cglue_drop_slice_box::<T>)
     Deref / DerefMut                                      : the instance
     into_opaque                                           : a bit move; the stored drop function keeps its element type
     Drop                                                  : drop_fn.take() is called on the instance: Box::from_raw, i.e. the
                                                             destructor of every element in order, then the deallocation
     IntoInner::into_inner (CBox only)                     : Box::from_raw, mem::forget(self), *b: the value moves to the caller,
                                                             no destructor runs, the allocation is released
   An operation on a dead slot or on a handle of the wrong kind is rejected without effect. *)
Require Import Verif.common.Prelude.
Open Scope Z_scope.

Inductive bxh :=
| XDead
| XBox (v : Z) (opaque : bool)
| XSlice (vs : list Z) (opaque : bool).

Inductive bxop :=
| XNew (v : Z) | XFromBox (v : Z) | XFromPair (v : Z) | XNewSlice (vs : list Z)
| XRead (h : nat) | XWrite (h : nat) (i : Z) (x : Z) | XOpaque (h : nat) | XDrop (h : nat) | XIntoInner (h : nat).

Definition bxget (p : list bxh) (h : nat) : bxh := nth h p XDead.
Fixpoint bxset (p : list bxh) (i : nat) (x : bxh) : list bxh :=
  match p, i with [], _ => [] | _ :: t, O => x :: t | a :: t, S i => a :: bxset t i x end.
Fixpoint set_val (l : list Z) (i : nat) (x : Z) : list Z :=
  match l, i with [], _ => [] | _ :: t, O => x :: t | a :: t, S i => a :: set_val t i x end.

(* result: new pool, result row, destructors that ran (in order), values handed back to the caller *)
Definition bxres : Type := (list bxh * list Z * list Z * list Z)%type.
Definition bxrej (p : list bxh) (c : Z) : bxres := (p, [c; 0; -1], [], []).
Definition bxnew (p : list bxh) (h : bxh) (c : Z) : bxres := (p ++ [h], [c; 1; nz (length p)], [], []).

Definition bxstep (p : list bxh) (o : bxop) : bxres :=
  match o with
  | XNew v => bxnew p (XBox v false) 0
  | XFromBox v => bxnew p (XBox v false) 1
  | XFromPair v => bxnew p (XBox v false) 2
  | XNewSlice vs => bxnew p (XSlice vs false) 3
  | XRead h => match bxget p h with
               | XBox v false => (p, [4; 1; v], [], [])
               | XSlice vs false => (p, 4 :: 1 :: nz (length vs) :: vs, [], [])
               | _ => bxrej p 4 end
  | XWrite h i x => match bxget p h with
                    | XBox v false => (bxset p h (XBox x false), [5; 1; -1], [v], [])
                    | XSlice vs false =>
                        if (0 <=? i) && (i <? nz (length vs))
                        then (bxset p h (XSlice (set_val vs (zn i) x) false), [5; 1; -1], [nth (zn i) vs 0], [])
                        else (p, [5; 9; -1], [x], [])        (* index panics; the value on its way in is destroyed by the unwinding *)
                    | _ => bxrej p 5 end
  | XOpaque h => match bxget p h with
                 | XBox v _ => let '(p', r, d, b) := bxnew (bxset p h XDead) (XBox v true) 6 in (p', r, d, b)
                 | XSlice vs _ => bxnew (bxset p h XDead) (XSlice vs true) 6
                 | XDead => bxrej p 6 end
  | XDrop h => match bxget p h with
               | XBox v _ => (bxset p h XDead, [7; 1; -1], [v], [])
               | XSlice vs _ => (bxset p h XDead, [7; 1; -1], vs, [])
               | XDead => bxrej p 7 end
  | XIntoInner h => match bxget p h with
                    | XBox v false => (bxset p h XDead, [8; 1; v], [], [v])
                    | _ => bxrej p 8 end
  end.

Fixpoint bxrun_raw (p : list bxh) (ops : list bxop) : list (list Z) * list bxh :=
  match ops with
  | [] => ([], p)
  | o :: os => let '(p', r, ds, _) := bxstep p o in
               let '(rows, fin) := bxrun_raw p' os in
               (r :: ds :: rows, fin)
  end.
Definition bxrun (ops : list bxop) : list (list Z) :=
  let '(rows, p) := bxrun_raw [] ops in
  rows ++ fst (bxrun_raw p (map XDrop (seq 0 (length p)))).

Definition dec_bxop (row : list Z) : option bxop :=
  match row with
  | [0; v] => Some (XNew v) | [1; v] => Some (XFromBox v) | [2; v] => Some (XFromPair v)
  | 3 :: vs => Some (XNewSlice vs)
  | [4; h] => Some (XRead (zn h)) | [5; h; i; x] => Some (XWrite (zn h) i x) | [6; h] => Some (XOpaque (zn h))
  | [7; h] => Some (XDrop (zn h)) | [8; h] => Some (XIntoInner (zn h))
  | _ => None
  end.
Fixpoint dec_bxops (rows : list (list Z)) : option (list bxop) :=
  match rows with [] => Some [] | r :: rs => match dec_bxop r, dec_bxops rs with Some a, Some l => Some (a :: l) | _, _ => None end end.
Definition run_boxed (params : list Z) (rows : list (list Z)) : list (list Z) :=
  match dec_bxops rows with Some ops => bxrun ops | None => [[-2]] end.
