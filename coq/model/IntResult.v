(* Executable model of the integer-result part of cglue/src/result.rs.  NO proofs.
   i32 values are Z restricted to [-2^31, 2^31) (the codec clamps), the caller's
   MaybeUninit<T> output slot is explicit. *)
Require Import Verif.common.Prelude.
Open Scope Z_scope.

Inductive slot := Uninit | Filled (v : Z).

(* the three error types shipped with IntError impls *)
Inductive err :=
| EIoOs (c : Z)        (* std::io::Error::from_raw_os_error(c)                 *)
| EIoOther (k : Z)     (* io::Error without an OS code (ErrorKind k)           *)
| EUnit                (* ()                                                   *)
| EFmt.                (* core::fmt::Error                                     *)

Inductive etype := TIo | TUnit | TFmt.
Definition etype_of (e : err) : etype :=
  match e with EIoOs _ | EIoOther _ => TIo | EUnit => TUnit | EFmt => TFmt end.

Inductive result := ROk (v : Z) | RErr (e : err).

(* IntError::into_int_err; the Rust code returns NonZeroI32::new(x).unwrap(): a zero here
   would be a panic, which the model reports as None *)
Definition into_int_err (e : err) : option Z :=
  let nz x := if x =? 0 then None else Some x in
  match e with
  | EIoOs c => let err := c in              (* raw_os_error().unwrap_or(0) *)
               nz (if err =? 0 then 65535 else err)
  | EIoOther _ => nz (if 0 =? 0 then 65535 else 0)
  | EUnit => nz 1
  | EFmt => nz 1
  end.

Definition from_int_err (t : etype) (c : Z) : err :=
  match t with TIo => EIoOs c | TUnit => EUnit | TFmt => EFmt end.

(* pub fn into_int_result *)
Definition into_int_result (r : result) : option Z :=
  match r with ROk _ => Some 0 | RErr e => into_int_err e end.

(* pub fn into_int_out_result: writes the slot only on Ok *)
Definition into_int_out_result (r : result) (s : slot) : option (Z * slot) :=
  match r with
  | ROk v => Some (0, Filled v)
  | RErr e => match into_int_err e with Some c => Some (c, s) | None => None end
  end.

(* pub unsafe fn from_int_result: assume_init only when the code is 0 *)
Definition from_int_result (t : etype) (code : Z) (s : slot) : outcome result :=
  if code =? 0 then match s with Filled v => Ok (ROk v) | Uninit => UB end
  else Ok (RErr (from_int_err t code)).

Definition from_int_result_empty (t : etype) (code : Z) : result :=
  if code =? 0 then ROk 0 else RErr (from_int_err t code).

(* ---- codec: one case per row
   row = [etype; shape; x]   shape 0: Ok x | 1: Err Os x | 2: Err Other(kind x) | 3: Err of the unit-like type
   output row = [code; slot filled?; decoded variant 0/1; decoded payload (value / raw os code / -1)] ++
                [into_int_result code; from_int_result_empty variant]                                    *)
Definition dec_etype (z : Z) : etype := if z =? 0 then TIo else if z =? 1 then TUnit else TFmt.

Definition mk_result (t : etype) (shape x : Z) : result :=
  if shape =? 0 then ROk x
  else match t with
       | TIo => if shape =? 1 then RErr (EIoOs x) else RErr (EIoOther x)
       | TUnit => RErr EUnit
       | TFmt => RErr EFmt
       end.

Definition payload_of (r : result) : list Z :=
  match r with
  | ROk v => [0; v]
  | RErr (EIoOs c) => [1; c]
  | RErr _ => [1; -1]
  end.

Definition run_case (row : list Z) : list Z :=
  match row with
  | [t; shape; x] =>
      let ty := dec_etype t in
      let r := mk_result ty shape x in
      match into_int_out_result r Uninit, into_int_result r with
      | Some (code, s), Some code2 =>
          match from_int_result ty code s with
          | Ok r' => [code; match s with Filled _ => 1 | Uninit => 0 end] ++ payload_of r' ++
                     [code2; match from_int_result_empty ty code2 with ROk _ => 0 | RErr _ => 1 end]
          | _ => [-1]
          end
      | _, _ => [-9]           (* NonZeroI32::new(0).unwrap() would panic *)
      end
  | _ => [-2]
  end.

Definition run_intres (params : list Z) (rows : list (list Z)) : list (list Z) := map run_case rows.
