(* The group generator model (cglue-gen/src/trait_groups.rs): sorting of mandatory and optional
   traits by identifier, field lists of the base group struct, the container and the
   With-variants, the positional "peekable merge" used to build them (transcribed literally),
   and the macro side of casts (TraitCastGroup sorts the requested traits and derives the function
   name).  Identifiers are byte lists compared lexicographically (the order of proc_macro2::Ident).
   NO proofs. *)
Require Import Verif.common.Prelude.
Open Scope Z_scope.

Definition ident := list Z.

Fixpoint lex_leb (a b : ident) : bool :=
  match a, b with
  | [], _ => true
  | _ :: _, [] => false
  | x :: a', y :: b' => if x <? y then true else if y <? x then false else lex_leb a' b'
  end.
Fixpoint ident_eqb (a b : ident) : bool :=
  match a, b with
  | [], [] => true
  | x :: a', y :: b' => (x =? y) && ident_eqb a' b'
  | _, _ => false
  end.

(* a trait of the group: its position in the user's definition, and its identifier *)
Record tinfo := mkti { ti_idx : nat; ti_name : ident }.
Definition ti_leb (a b : tinfo) : bool := lex_leb (ti_name a) (ti_name b).
Definition ti_eqb (a b : tinfo) : bool := ident_eqb (ti_name a) (ti_name b).      (* PartialEq of TraitInfo compares identifiers *)

(* Vec::sort (stable) by identifier *)
Fixpoint insert_sorted (x : tinfo) (l : list tinfo) : list tinfo :=
  match l with
  | [] => [x]
  | y :: r => if ti_leb x y then x :: l else y :: insert_sorted x r
  end.
Definition sort_ti (l : list tinfo) : list tinfo := fold_right insert_sorted [] l.

(* fn mixed_opt_vtbl_defs / mixed_opt_vtbl_unwrap_list:
   let mut iter = iter.peekable();  self.optional_vtbl.iter().map(|v| if iter.peek() == Some(&v) { iter.next(); (v, true) } else { (v, false) }) *)
Fixpoint mixed (opts req : list tinfo) : list (tinfo * bool) :=
  match opts with
  | [] => []
  | v :: r => match req with
              | q :: req' => if ti_eqb q v then (v, true) :: mixed r req' else (v, false) :: mixed r req
              | [] => (v, false) :: mixed r []
              end
  end.

(* itertools powerset restricted to one subset: the members of the (sorted) optional list selected by a mask over
   the user's (input-order) indices; order of the sorted list is kept *)
Definition in_mask (nmand : nat) (mask : Z) (t : tinfo) : bool := Z.testbit mask (nz (ti_idx t - nmand)).
Definition select (nmand : nat) (mask : Z) (sorted_opt : list tinfo) : list tinfo := filter (in_mask nmand mask) sorted_opt.

Definition mask_of (nmand : nat) (l : list tinfo) : Z :=
  fold_right (fun t acc => Z.lor acc (Z.shiftl 1 (nz (ti_idx t - nmand)))) 0 l.

Record group := mkg { g_mand : list tinfo; g_opt : list tinfo }.       (* in input order *)

(* field rows in the encoding of harness/gen (grp): [kind; trait index; is Option] *)
Definition f_vtbl (t : tinfo) (opt : bool) : list Z := [1; nz (ti_idx t); bz opt].
Definition base_fields (g : group) : list Z :=
  flat_map (fun t => f_vtbl t false) (sort_ti (g_mand g)) ++ flat_map (fun t => f_vtbl t true) (sort_ti (g_opt g)) ++ [2; 0; 0].
Definition container_fields (g : group) : list Z :=
  [3; 0; 0; 4; 0; 0] ++ flat_map (fun t => [5; nz (ti_idx t); 0]) (sort_ti (g_mand g)) ++ flat_map (fun t => [5; nz (ti_idx t); 0]) (sort_ti (g_opt g)).
(* the With-variant for a requested sublist: mandatory refs, then the optional list with the requested ones unwrapped *)
Definition with_fields (g : group) (req : list tinfo) : list Z :=
  flat_map (fun t => f_vtbl t false) (sort_ti (g_mand g)) ++
  flat_map (fun p : tinfo * bool => f_vtbl (fst p) (negb (snd p))) (mixed (sort_ti (g_opt g)) req) ++ [2; 0; 0].

(* the Final variant that into!(..) returns for a requested sublist: mandatory refs, then the requested optional ones (all unwrapped) *)
Definition final_fields (g : group) (req : list tinfo) : list Z :=
  flat_map (fun t => f_vtbl t false) (sort_ti (g_mand g)) ++ flat_map (fun t => f_vtbl t false) req ++ [2; 0; 0].

(* the macro side: cast!(obj impl T1 + T2 ..) sorts what it was given; the group side generated one function per
   non-empty subset with the names in the sorted order of the optional list *)
Definition macro_request (req_in_any_order : list tinfo) : list tinfo := sort_ti req_in_any_order.
Definition generated_for (g : group) (mask : Z) : list tinfo := select (length (g_mand g)) mask (sort_ti (g_opt g)).
Definition names_of (l : list tinfo) : list ident := map ti_name l.

(* per mask: is the function the macro asks for among the generated ones, what does it validate, what does it build *)
Definition mask_row (g : group) (mask : Z) : list Z :=
  let nm := length (g_mand g) in
  (* the macro is handed the requested traits in REVERSE input order *)
  let req_in := rev (filter (in_mask nm mask) (g_opt g)) in
  let asked := macro_request req_in in
  let gen := generated_for g mask in
  let defined := bz (if list_eq_dec (list_eq_dec Z.eq_dec) (names_of asked) (names_of gen) then true else false) in
  let marked := filter (fun p : tinfo * bool => snd p) (mixed (sort_ti (g_opt g)) gen) in
  let vm := mask_of nm (map fst marked) in
  [mask; defined; vm; vm; defined; vm; -1; defined; vm; -1; defined; mask_of nm gen; mask_of nm gen; defined; -1; -1]
  (* followed by the field sequences of the two structs the cast functions build: -5 With-variant, -6 Final variant *)
  ++ (-5) :: (if defined =? 1 then with_fields g gen else []) ++ (-6) :: (if defined =? 1 then final_fields g gen else []).

(* cglue_impl_group!(T, G, { listed }): TraitGroupImpl::parse turns the listed traits into TraitInfo, sorts them, and
   enable_opt_vtbls emits one `.enable_<trait>()` call per element: the vtables filled for T are exactly the listed ones.
   Row per subset (the traits listed in REVERSE input order), in the encoding of harness/gen (grp, id 204):
   [mask; enabled by fill_table; number of enable calls; the same two for the Fwd filler; traits bound in the where clause; foreign enable calls] *)
Definition impl_enabled (listed : list tinfo) : list tinfo := sort_ti listed.
(* the forward list (fourth argument) is INDEPENDENT of the owned list.  Forward mode of a case: 0 the same list; 1 no forward list (three-argument
   form: no Fwd filler is generated, the harness prints -1 -1); 2 the complement of the owned list; 3 the owned list rotated by one position *)
Definition fwd_mask (nopt : nat) (fm mask : Z) : Z :=
  if fm =? 2 then (2 ^ nz nopt - 1) - mask
  else if fm =? 3 then (match nopt with O => 0 | S k => mask / 2 + (mask mod 2) * 2 ^ nz k end)
  else mask.
Definition impl_row (g : group) (fm mask : Z) : list Z :=
  let nm := length (g_mand g) in
  let listed := rev (filter (in_mask nm mask) (g_opt g)) in
  let en := impl_enabled listed in
  if fm =? 1 then [mask; mask_of nm en; nz (length en); -1; -1; mask_of nm en; 0]
  else
    let flisted := rev (filter (in_mask nm (fwd_mask (length (g_opt g)) fm mask)) (g_opt g)) in
    let fen := impl_enabled flisted in
    [mask; mask_of nm en; nz (length en); mask_of nm fen; nz (length fen); mask_of nm en; 0].

(* an aliased instantiation of a generic trait is written `Get<u8>=GetU8`; the alias is the trait's identity (TraitInfo::name_ident) *)
Fixpoint alias_of (n : ident) : ident :=
  match n with
  | [] => []
  | c :: r => if existsb (Z.eqb 61) r then alias_of r else if c =? 61 then r else c :: r
  end.

Definition tolower (c : Z) : Z := if (65 <=? c) && (c <=? 90) then c + 32 else c.

Definition run_group (params : list Z) (rows : list (list Z)) : list (list Z) :=
  match params with
  | nm :: _ =>
      let nmand := zn nm in
      let all := combine (seq 0 (length rows)) rows in
      let tis := map (fun p : nat * list Z => mkti (fst p) (alias_of (snd p))) all in
      let g := mkg (firstn nmand tis) (skipn nmand tis) in
      let nopt := length (g_opt g) in
      (1 :: base_fields g) :: (1 :: container_fields g) ::
      map (fun m => mask_row g (nz m)) (seq 1 (Nat.pow 2 nopt - 1))
  | _ => [[-2]]
  end.

Definition run_group_impl (params : list Z) (rows : list (list Z)) : list (list Z) :=
  match params with
  | nm :: _ =>
      let nmand := zn nm in
      let all := combine (seq 0 (length rows)) rows in
      let tis := map (fun p : nat * list Z => mkti (fst p) (alias_of (snd p))) all in
      let g := mkg (firstn nmand tis) (skipn nmand tis) in
      let fm := match params with _ :: f :: _ => f | _ => 0 end in
      map (fun m => impl_row g fm (nz m)) (seq 0 (Nat.pow 2 (length (g_opt g))))
  | _ => [[-2]]
  end.
