(* Single entry point of all executable models:
   run_model id params rows  — ids are the property numbers / sub-models. *)
Require Import Verif.common.Prelude.
Require Import Verif.model.Vec Verif.model.Arc Verif.model.IntResult Verif.model.CStr Verif.model.Callback Verif.model.Slice Verif.model.Waker Verif.model.CView Verif.model.Glue Verif.model.Life Verif.model.Group Verif.model.LayoutCheck Verif.model.Bindgen Verif.model.BindgenHeader Verif.model.XMod Verif.model.Boxed.

Definition run_model (m : Z) (params : list Z) (rows : list (list Z)) : list (list Z) :=
  match m with
  | 1%Z => run_gen params rows
  | 4%Z => run_group params rows
  | 5%Z => run_xmod params rows
  | 10%Z => run_carc params rows
  | 11%Z => run_cvec params rows
  | 12%Z => run_slice params rows
  | 13%Z => run_intres params rows
  | 14%Z => run_cstr params rows
  | 15%Z => run_cb params rows
  | 16%Z => run_c16 params rows
  | 17%Z => run_bindgen_c params rows
  | 18%Z => run_cli params rows
  | 19%Z => run_waker params rows
  | 20%Z => run_layoutcheck params rows
  | 21%Z => run_boxed params rows
  | 103%Z => run_ffi params rows
  | 110%Z => run_carc_threads params rows
  | 210%Z => run_carc_calls params rows
  | 106%Z => run_life params rows
  | 108%Z => run_casts params rows
  | 117%Z => run_bindgen_cpp params rows
  | 118%Z => run_header params rows
  | 201%Z => run_fwd params rows
  | 204%Z => run_group_impl params rows
  | 217%Z => run_split_args params rows
  | _ => [[-3]%Z]
  end.
