(* Executable model of cglue/src/vec.rs (CVec<T>), at the level of its fields and raw
   memory.  NO proofs here (see proofs/VecProofs.v) so the model still runs when a proof
   breaks.

   Memory is a list of cells; [len]/[cap] are the struct's fields; [acap] is a ghost: the
   capacity the allocation behind [data] really has (what the allocator was told).
   Cells at index >= len hold stale bit copies / garbage, exactly as in the real buffer. *)
Require Import Verif.common.Prelude.

Record cvec := mkv { buf : list Z; len : nat; cap : nat; acap : nat }.

Inductive vop :=
| VPush (x : Z) | VPop | VInsert (i : nat) (x : Z) | VRemove (i : nat) | VReserve (n : nat)
| VClone | VWrite (i : nat) (x : Z) | VFromVec (spare : nat) (xs : list Z) | VRead
| VCloneP     (* clone of a vector of elements whose Clone PANICS for poisoned values (element type PC of the harness) *)
| VCloneFrom (dst : list Z).   (* Clone::clone_from onto a destination vector that holds [dst]: the destination becomes the copy (its own elements are
                                  destroyed), then takes the vector's place as in VClone *)

(* output of one op: (result row, values whose destructor ran, in order) *)
Definition vout : Type := (list Z * list Z)%type.

Section WithGrow.
(* Vec::reserve's growth policy: any function with  len + add <= grow len add cap *)
Variable grow : nat -> nat -> nat -> nat.

(* extern "C" fn cglue_reserve_vec: TempVec::from(vec) ; vec.reserve(size) ; write back *)
Definition reserve_fn (v : cvec) (add : nat) : outcome cvec :=
  if cap v <? len v then UB else
  if cap v - len v <? add then                      (* Vec::reserve's own test *)
    if negb (cap v =? acap v) then UB                (* realloc with a foreign layout *)
    else let c' := grow (len v) add (cap v) in
         match region (buf v) 0 (len v) with
         | Some live => Ok (mkv (live ++ repeat 0%Z (c' - len v)) (len v) c' c')
         | None => UB
         end
  else Ok v.

(* pub fn reserve: if self.capacity - self.len < additional { (self.reserve_fn)(self, additional) } *)
Definition reserve (v : cvec) (add : nat) : outcome cvec :=
  if cap v <? len v then UB                           (* usize underflow *)
  else if cap v - len v <? add then reserve_fn v add else Ok v.

Definition push (v : cvec) (x : Z) : outcome cvec :=
  match reserve v 1 with
  | Ok v1 =>
      if cap v1 <=? len v1 then UB else               (* write past the allocation *)
      match set_cell (buf v1) (len v1) x with
      | Some b => Ok (mkv b (S (len v1)) (cap v1) (acap v1))
      | None => UB
      end
  | _ => UB
  end.

Definition insert (v : cvec) (i : nat) (x : Z) : outcome cvec :=
  if negb (i <=? len v) then Panic v else             (* assert!(index <= self.len) *)
  match reserve v 1 with
  | Ok v1 =>
      if cap v1 <=? len v1 then UB else
      match memmove (buf v1) i (S i) (len v1 - i) with        (* ptr::copy(p, p+1, len-index) *)
      | Some b1 =>
          match set_cell b1 i x with                            (* ptr::write(p, element) *)
          | Some b2 => Ok (mkv b2 (S (len v1)) (cap v1) (acap v1))
          | None => UB
          end
      | None => UB
      end
  | _ => UB
  end.

Definition pop (v : cvec) : outcome (cvec * option Z) :=
  if len v =? 0 then Ok (v, None)
  else let l' := len v - 1 in
       if cap v <=? l' then UB else
       match get_cell (buf v) l' with                  (* ptr::read(data.add(len)) *)
       | Some x => Ok (mkv (buf v) l' (cap v) (acap v), Some x)
       | None => UB
       end.

Definition remove (v : cvec) (i : nat) : outcome (cvec * Z) :=
  if negb (i <? len v) then Panic (v, 0%Z) else       (* assert!(index < self.len) *)
  if cap v <? len v then UB else
  match get_cell (buf v) i with                         (* ptr::read(ptr) *)
  | Some ret =>
      match memmove (buf v) (S i) i (len v - i - 1) with   (* ptr::copy(ptr+1, ptr, len-index-1) *)
      | Some b => Ok (mkv b (len v - 1) (cap v) (acap v), ret)
      | None => UB
      end
  | None => UB
  end.

(* v[i] = x  through DerefMut (slice of [len] cells, bounds-checked by core) *)
Definition write (v : cvec) (i : nat) (x : Z) : outcome (cvec * Z) :=
  if cap v <? len v then UB else                       (* from_raw_parts_mut beyond the allocation *)
  if negb (i <? len v) then Panic (v, 0%Z) else
  match get_cell (buf v) i, set_cell (buf v) i x with
  | Some old, Some b => Ok (mkv b (len v) (cap v) (acap v), old)
  | _, _ => UB
  end.

(* Drop for CVec -> cglue_drop_vec(data,len,capacity) -> Vec::from_raw_parts(..) dropped:
   destructors of cells [0,len) in order, then dealloc with [cap]. *)
Definition drop_vec (v : cvec) : outcome (list Z) :=
  if negb (cap v =? acap v) then UB else
  match region (buf v) 0 (len v) with
  | Some live => Ok live
  | None => UB
  end.

(* an element whose Clone panics: values ending in ..13 *)
Definition poison (x : Z) : bool := (x mod 1000 =? 13)%Z.
(* the clones made before the first poisoned element: they are destroyed by the unwinding *)
Fixpoint cloned_before (l : list Z) : list Z :=
  match l with [] => [] | x :: r => if poison x then [] else x :: cloned_before r end.

(* Clone: Self::from(Vec::from(&**self)) – exact capacity *)
Definition clone_vec (v : cvec) : outcome cvec :=
  match region (buf v) 0 (len v) with
  | Some live => Ok (mkv live (len v) (len v) (len v))
  | None => UB
  end.

Definition from_vec (spare : nat) (xs : list Z) : cvec :=
  mkv (xs ++ repeat 0%Z spare) (length xs) (length xs + spare) (length xs + spare).

Definition read_row (v : cvec) : outcome (list Z) :=
  match region (buf v) 0 (len v) with
  | Some live => Ok (nz (len v) :: bz (len v <=? cap v) :: live)
  | None => UB
  end.

(* result-row codes: first cell = op code; 9 in second cell = panicked *)
Definition step (v : cvec) (o : vop) : outcome (cvec * vout) :=
  match o with
  | VPush x => match push v x with Ok v' => Ok (v', ([0%Z], [])) | Panic v' => Panic (v', ([0;9]%Z, [])) | UB => UB end
  | VPop => match pop v with
            | Ok (v', Some x) => Ok (v', ([1;1;x]%Z, []))
            | Ok (v', None) => Ok (v', ([1;0]%Z, []))
            | Panic (v', _) => Panic (v', ([1;9]%Z, []))
            | UB => UB end
  | VInsert i x => match insert v i x with
                   | Ok v' => Ok (v', ([2;0]%Z, []))
                   | Panic v' => Panic (v', ([2;9]%Z, [x]))     (* the element is dropped by the unwind *)
                   | UB => UB end
  | VRemove i => match remove v i with
                 | Ok (v', x) => Ok (v', ([3;1;x]%Z, []))
                 | Panic (v', _) => Panic (v', ([3;9]%Z, []))
                 | UB => UB end
  | VReserve n => match reserve v n with
                  | Ok v' => Ok (v', ([4%Z], []))
                  | Panic v' => Panic (v', ([4;9]%Z, []))
                  | UB => UB end
  | VClone => (* let c = v.clone(); drop(replace(v, c)) *)
      match clone_vec v with
      | Ok c => match drop_vec v with
                | Ok ds => Ok (c, ([5%Z], ds))
                | _ => UB end
      | _ => UB end
  | VCloneP => (* the same, but Vec::from(&[T]) clones element by element and the poisoned one panics: the source is untouched, the partial
                  copy is dropped with the clones made so far *)
      match region (buf v) 0 (len v) with
      | Some live =>
          if existsb poison live then Panic (v, ([5;9]%Z, cloned_before live))
          else match clone_vec v with
               | Ok c => match drop_vec v with
                         | Ok ds => Ok (c, ([5%Z], ds))
                         | _ => UB end
               | _ => UB end
      | None => UB
      end
  | VCloneFrom dst => (* d.clone_from(&v) is `*d = v.clone()`: the copy is made, the destination's old contents go away; then drop(replace(v, d)) *)
      match clone_vec v with
      | Ok c => match drop_vec v with
                | Ok ds => Ok (c, ([5%Z], dst ++ ds))
                | _ => UB end
      | _ => UB end
  | VWrite i x => match write v i x with
                  | Ok (v', old) => Ok (v', ([6;0]%Z, [old]))
                  | Panic (v', _) => Panic (v', ([6;9]%Z, [x]))
                  | UB => UB end
  | VFromVec spare xs =>
      match drop_vec v with
      | Ok ds => Ok (from_vec spare xs, ([7%Z], ds))
      | _ => UB end
  | VRead => match read_row v with
             | Ok r => Ok (v, (8%Z :: r, []))
             | _ => UB end
  end.

(* run a script; the last two rows are the final drop *)
Fixpoint run_from (v : cvec) (ops : list vop) : list (list Z) :=
  match ops with
  | [] => match drop_vec v with
          | Ok ds => [[99%Z]; ds]
          | _ => [[-1]%Z]
          end
  | o :: os =>
      match step v o with
      | Ok (v', (r, ds)) => r :: ds :: run_from v' os
      | Panic (v', (r, ds)) => r :: ds :: run_from v' os
      | UB => [[-1]%Z]
      end
  end.
End WithGrow.

(* ---- the reference: Vec<T> as a list ------------------------------------------- *)
Definition spec_step (l : list Z) (o : vop) : list Z * vout * bool :=
  match o with
  | VPush x => (l ++ [x], ([0%Z], []), false)
  | VPop => match rev l with
            | [] => (l, ([1;0]%Z, []), false)
            | x :: _ => (removelast l, ([1;1;x]%Z, []), false)
            end
  | VInsert i x => if i <=? length l then (firstn i l ++ x :: skipn i l, ([2;0]%Z, []), false)
                   else (l, ([2;9]%Z, [x]), true)
  | VRemove i => match nth_error l i with
                 | Some x => (firstn i l ++ skipn (S i) l, ([3;1;x]%Z, []), false)
                 | None => (l, ([3;9]%Z, []), true)
                 end
  | VReserve _ => (l, ([4%Z], []), false)
  | VClone => (l, ([5%Z], l), false)
  | VCloneP => if existsb poison l then (l, ([5;9]%Z, cloned_before l), true) else (l, ([5%Z], l), false)
  | VCloneFrom dst => (l, ([5%Z], dst ++ l), false)
  | VWrite i x => match nth_error l i with
                  | Some old => (firstn i l ++ x :: skipn (S i) l, ([6;0]%Z, [old]), false)
                  | None => (l, ([6;9]%Z, [x]), true)
                  end
  | VFromVec _ xs => (xs, ([7%Z], l), false)
  | VRead => (l, (8%Z :: nz (length l) :: 1%Z :: l, []), false)
  end.

Fixpoint spec_run (l : list Z) (ops : list vop) : list (list Z) :=
  match ops with
  | [] => [[99%Z]; l]
  | o :: os => let '(l', (r, ds), _) := spec_step l o in r :: ds :: spec_run l' os
  end.

(* ---- codec ----------------------------------------------------------------------- *)
Definition decode_vop (row : list Z) : option vop :=
  match row with
  | [0; x]%Z => Some (VPush x)
  | [1]%Z => Some VPop
  | [2; i; x]%Z => Some (VInsert (zn i) x)
  | [3; i]%Z => Some (VRemove (zn i))
  | [4; n]%Z => Some (VReserve (zn n))
  | [5]%Z => Some VClone
  | (5 :: 1 :: dst)%Z => Some (VCloneFrom dst)
  | [6; i; x]%Z => Some (VWrite (zn i) x)
  | (7 :: spare :: xs)%Z => Some (VFromVec (zn spare) xs)
  | [8]%Z => Some VRead
  | _ => None
  end.

Fixpoint decode_all {A} (d : list Z -> option A) (rows : list (list Z)) : option (list A) :=
  match rows with
  | [] => Some []
  | r :: rs => match d r, decode_all d rs with
               | Some a, Some l => Some (a :: l)
               | _, _ => None
               end
  end.

(* std's amortised policy for small elements: max(2*cap, len+add, 4) – only the contract
   len+add <= result matters to any theorem or comparison *)
Definition std_grow (l a c : nat) : nat := Nat.max (Nat.max (2 * c) (l + a)) 4.

(* element type 6 of the harness (header field 1) is the one whose Clone panics: its clone operation is VCloneP *)
Definition run_cvec (params : list Z) (rows : list (list Z)) : list (list Z) :=
  match decode_all decode_vop rows with
  | Some ops => let ops := if (nth 0 params 0 =? 6)%Z then map (fun o => match o with VClone => VCloneP | _ => o end) ops else ops in
                run_from std_grow (from_vec 0 []) ops
  | None => [[-2]%Z]
  end.
