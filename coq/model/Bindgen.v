(* cglue-bindgen: the wrapper generator of the header post-processor (C17) and the command-line split (C18).
   Executable model, NO proofs here.

   Modelled (from cglue-bindgen/src/types.rs and codegen/{c,cpp}.rs):
     - ArgsParser (bracket-depth comma splitter + name extraction)           -> split_args
     - Function::create_wrapper                                              -> mk_wrapper : ... -> wrapper (a small C/C++ AST) ; render
     - Vtable::create_wrappers_c (prefix rules, `generated_funcs` dedupe)     -> gen_entry_c
     - the object loop followed by the group loop of c::parse_header          -> gen_c
     - Vtable::create_wrappers / Group::create_wrappers / the CGlueTraitObj specialisations of cpp::parse_header -> gen_cpp
     - the windows(2) argument split of main.rs                              -> split_cli
   NOT modelled: the regular expressions that discover vtables, objects and groups in the header text (no regex engine is formalised);
   the model receives what they are supposed to find and the correspondence check compares the outcome on generated headers. *)
Require Import Verif.common.Prelude.
From Coq Require Import String Ascii.
Open Scope string_scope.
Open Scope nat_scope.

(* ------------------------------------------------------------------------------------------------ strings *)
Definition lower_ascii (c : ascii) : ascii :=
  let n := nat_of_ascii c in if (65 <=? n) && (n <=? 90) then ascii_of_nat (n + 32) else c.
Fixpoint lower (s : string) : string :=
  match s with EmptyString => EmptyString | String c r => String (lower_ascii c) (lower r) end.

Definition is_ws (c : ascii) : bool :=
  let n := nat_of_ascii c in (n =? 32) || ((9 <=? n) && (n <=? 13)).

Fixpoint ltrim (l : list ascii) : list ascii :=
  match l with c :: r => if is_ws c then ltrim r else l | [] => [] end.
Definition trim (l : list ascii) : list ascii := rev (ltrim (rev (ltrim l))).
Definition la := list_ascii_of_string.
Definition sl := string_of_list_ascii.
Definition trim_s (s : string) : string := sl (trim (la s)).

Definition ch (s : string) : ascii := match s with String c _ => c | EmptyString => zero end.
Definition aeq (a b : ascii) : bool := Ascii.eqb a b.

(* ------------------------------------------------------------------------------------------------ ArgsParser *)
(* scan for the first comma at bracket depth 0 that is seen before any closing bracket went negative
   (`splitn(2, pred)`: the predicate runs over the characters of the first piece only) *)
Fixpoint scan (l : list ascii) (b0 b1 b2 : Z) (ill : bool) (acc : list ascii) : list ascii * option (list ascii) * bool :=
  match l with
  | [] => (rev acc, None, ill)
  | c :: r =>
      if aeq c (ch "<") then scan r (b0 + 1) b1 b2 ill (c :: acc)
      else if aeq c (ch "(") then scan r b0 (b1 + 1) b2 ill (c :: acc)
      else if aeq c (ch "[") then scan r b0 b1 (b2 + 1) ill (c :: acc)
      else if aeq c (ch ">") then scan r (b0 - 1) b1 b2 (ill || (b0 - 1 <? 0)%Z) (c :: acc)
      else if aeq c (ch ")") then scan r b0 (b1 - 1) b2 (ill || (b1 - 1 <? 0)%Z) (c :: acc)
      else if aeq c (ch "]") then scan r b0 b1 (b2 - 1) (ill || (b2 - 1 <? 0)%Z) (c :: acc)
      else if aeq c (ch ",") && negb ill && (b0 =? 0)%Z && (b1 =? 0)%Z && (b2 =? 0)%Z then (rev acc, Some r, ill)
      else scan r b0 b1 b2 ill (c :: acc)
  end.

Definition is_namesep (c : ascii) : bool := aeq c (ch "&") || aeq c (ch "*") || aeq c (ch " ").

(* the part after the last `&`, `*` or space (rsplit(..).next()) , on the reversed piece *)
Fixpoint take_name_rev (r : list ascii) : list ascii :=
  match r with c :: t => if is_namesep c then [] else c :: take_name_rev t | [] => [] end.

Definition split_piece (p : list ascii) : list ascii * list ascii :=
  let name_rev := take_name_rev (rev p) in
  let ty := firstn (List.length p - List.length name_rev) p in
  (trim ty, trim (rev name_rev)).

Fixpoint split_args_fuel (fuel : nat) (l : list ascii) : list (list ascii * list ascii) :=
  match fuel with
  | 0 => []
  | S fuel =>
      match l with
      | [] => []
      | _ =>
          let '(piece, rest, ill) := scan l 0 0 0 false [] in
          if ill then []
          else split_piece piece :: match rest with Some r => split_args_fuel fuel r | None => [] end
      end
  end.
Definition split_args (l : list ascii) : list (list ascii * list ascii) := split_args_fuel (S (List.length l)) l.

(* ------------------------------------------------------------------------------------------------ Function *)
Record func := mkfunc {
  f_name : string;
  f_ret : string;                         (* as captured: untrimmed *)
  f_args : list (string * string);        (* (type, name) *)
  f_const : bool;
  f_moves : bool;
  f_calls : bool
}.

(* `cont` is the captured container parameter text: 0 `T *`, 1 `const T *`, 2 `T ` *)
Definition parse_func (name ret : string) (contk : nat) (args_raw : string) : func :=
  let args := match la args_raw with
              | [] => []
              | _ :: r => map (fun p : list ascii * list ascii => (sl (fst p), sl (snd p))) (split_args r)
              end in
  mkfunc name ret args (contk =? 1) (contk =? 2) true.

Definition drop_func : func := mkfunc "drop" "void" [] false true false.

(* ------------------------------------------------------------------------------------------------ wrapper AST *)
Inductive this_expr :=
| ThisCpp                                  (* this->                        *)
| ThisVal                                  (* self.                         *)
| ThisPtr                                  (* self->                        *)
| ThisCast (cst : bool) (ty : string).     (* ((const? ty * )self)->        *)

Inductive dest :=
| DNone
| DPlain (ty : string)                     (* ty __ret = <call>             *)
| DWrap (ty : string) (copied : list string). (* ty __ret; __ret.v = this.v ..; __ret.container = <call> *)

Inductive stmt :=
| SClone (cpp : bool) (ctxty ctxlow : string)
| SCall (d : dest) (vt slot : string) (addr : bool) (args : list string)
| SResultOnly (d : dest)                   (* a wrapper without a call still prints the result prefix *)
| SForget
| SDropClone (ctxlow : string)
| SDropCloneCpp                            (* mem_drop(std::move(___ctx))   *)
| SDropInst (contlow : string)
| SDropCtx (ctxlow : string)
| SReturn.

Record wrapper := mkw {
  w_cpp : bool;
  w_ret : string;
  w_name : string;
  w_this : this_expr;
  w_selfparam : option string;             (* C only: the text of the self parameter *)
  w_params : list (string * string);
  w_constness : string;
  w_body : list stmt
}.

Definition access (t : this_expr) : string :=
  match t with
  | ThisCpp => "this->"
  | ThisVal => "self."
  | ThisPtr => "self->"
  | ThisCast c ty => "((" ++ (if c then "const " else "") ++ ty ++ " *)self)->"
  end.

(* [rel] is read from the source by the translator: does the C++ generator release the context clone of a consuming call? *)
Definition mk_wrapper (rel : bool) (f : func) (container vtbl prefix : string) (cpp cast_self : bool)
           (this_ty : string) (vtbls : list string)
           (cinfo_ty cinfo_pre : string) (cinfo_drop : bool)
           (ctx_ty ctx_pre : string) (ctx_drop : bool) : wrapper :=
  let this := if cpp then ThisCpp else if f_moves f then ThisVal else if negb cast_self then ThisPtr else ThisCast (f_const f) this_ty in
  let selfparam :=
    if cpp then None
    else Some ((if negb (f_moves f) && f_const f then "const " else "") ++ (if cast_self then "void" else this_ty) ++ " " ++
               (if f_moves f then "" else "*") ++ "self") in
  let ret := trim_s (f_ret f) in
  let wrap := String.eqb ret cinfo_ty in
  let d := if wrap then DWrap this_ty vtbls else if negb (String.eqb ret "void") then DPlain ret else DNone in
  let clone := if f_moves f && f_calls f then
                 (if cpp then [SClone true "" ""] else if ctx_drop then [SClone false ctx_ty (lower ctx_pre)] else [])
               else [] in
  let call := if f_calls f then [SCall d vtbl (f_name f) (negb (f_moves f)) (map snd (f_args f))] else [SResultOnly d] in
  let post1 := if f_moves f then
                 (if cpp then SForget :: (if rel then [SDropCloneCpp] else [])
                  else if ctx_drop && f_calls f then [SDropClone (lower ctx_pre)] else [])
               else [] in
  let post2 := if f_moves f && negb (f_calls f) && negb cpp then
                 ((if cinfo_drop then [SDropInst (lower cinfo_pre)] else []) ++ (if ctx_drop then [SDropCtx (lower ctx_pre)] else []))%list
               else [] in
  let fin := if negb (String.eqb ret "void") then [SReturn] else [] in
  mkw cpp (if wrap then this_ty else ret) (prefix ++ f_name f) this selfparam (f_args f)
      (if f_moves f && cpp then "&& " else if f_const f && cpp then "const " else "")
      (clone ++ call ++ post1 ++ post2 ++ fin)%list.

(* ------------------------------------------------------------------------------------------------ rendering *)
Fixpoint join (sep : string) (l : list string) : string :=
  match l with [] => "" | [x] => x | x :: r => x ++ sep ++ join sep r end.

Definition render_dest (d : dest) (this : this_expr) : string :=
  match d with
  | DNone => ""
  | DPlain ty => ty ++ " __ret = "
  | DWrap ty copied => ty ++ " __ret;" ++ String.concat "" (map (fun v => "__ret." ++ v ++ " = " ++ access this ++ v ++ ";") copied) ++ "__ret.container = "
  end.

Definition render_stmt (container : string) (this : this_expr) (s : stmt) : string :=
  match s with
  | SClone true _ _ => "auto ___ctx = StoreAll()[this->container.clone_context(), StoreAll()];"
  | SClone false ty low => ty ++ " ___ctx = ctx_" ++ low ++ "_clone(&" ++ access this ++ "container.context);"
  | SCall d vt slot addr args =>
      render_dest d this ++ "(" ++ access this ++ vt ++ ")->" ++ slot ++ "(" ++
      join ", " (((if addr then "&" else "") ++ access this ++ container) :: args) ++ ");"
  | SResultOnly d => render_dest d this
  | SForget => "mem_forget(" ++ access this ++ "container);"
  | SDropClone low => "ctx_" ++ low ++ "_drop(&___ctx);"
  | SDropCloneCpp => "mem_drop(std::move(___ctx));"
  | SDropInst low => "cont_" ++ low ++ "_drop(&" ++ access this ++ "container.instance);"
  | SDropCtx low => "ctx_" ++ low ++ "_drop(&" ++ access this ++ "container.context);"
  | SReturn => "return __ret;"
  end.

Definition param_text (a : string * string) : string := fst a ++ " " ++ snd a.
Definition param_texts (w : wrapper) : list string :=
  List.app (match w_selfparam w with Some p => [p] | None => [] end) (map param_text (w_params w)).

Definition render (container : string) (w : wrapper) : string :=
  (if w_cpp w then "inline" else "static inline") ++ " " ++ w_ret w ++ " " ++ w_name w ++ "(" ++
  join ", " (param_texts w) ++ ") " ++
  w_constness w ++ (if w_cpp w then "noexcept" else "") ++ " {" ++
  String.concat "" (map (render_stmt container (w_this w)) (w_body w)) ++ "}".

(* ------------------------------------------------------------------------------------------------ semantics *)
(* What a wrapper does when called on an object, as a trace over the object's fields:
   which vtable field is dereferenced, which slot is invoked, how the container is passed, which formal parameters are
   forwarded, and which clone / release helpers run, in order. *)
Inductive ev :=
| EvClone                                   (* a clone of the object's context is taken                     *)
| EvCall (vt slot : string) (addr : bool) (args : list string)
| EvDropClone                               (* the clone taken by EvClone is released                       *)
| EvForget                                  (* C++: the moved-from container is nulled out                  *)
| EvDropInst
| EvDropCtx.

Inductive retval := RetVoid | RetCall | RetWrapped (copied : list string) | RetGarbage.

Definition ev_of (s : stmt) : list ev :=
  match s with
  | SClone _ _ _ => [EvClone]
  | SCall _ vt slot addr args => [EvCall vt slot addr args]
  | SResultOnly _ => []
  | SForget => [EvForget]
  | SDropClone _ => [EvDropClone]
  | SDropCloneCpp => [EvDropClone]
  | SDropInst _ => [EvDropInst]
  | SDropCtx _ => [EvDropCtx]
  | SReturn => []
  end.

Definition trace (w : wrapper) : list ev := flat_map ev_of (w_body w).

Definition dest_of (w : wrapper) : option dest :=
  match filter (fun s => match s with SCall _ _ _ _ _ | SResultOnly _ => true | _ => false end) (w_body w) with
  | SCall d _ _ _ _ :: _ => Some d
  | SResultOnly d :: _ => Some d
  | _ => None
  end.

Definition returns (w : wrapper) : retval :=
  let has_call := existsb (fun s => match s with SCall _ _ _ _ _ => true | _ => false end) (w_body w) in
  let has_ret := existsb (fun s => match s with SReturn => true | _ => false end) (w_body w) in
  if negb has_ret then RetVoid
  else match dest_of w with
       | Some (DPlain _) => if has_call then RetCall else RetGarbage
       | Some (DWrap _ copied) => if has_call then RetWrapped copied else RetGarbage
       | _ => RetGarbage
       end.

(* ------------------------------------------------------------------------------------------------ header level, C mode *)
Record entry := mkentry {
  e_obj : bool;
  e_trait : string;
  e_cont : string;          (* group name for groups                                     *)
  e_second : string;        (* the mangled `<inner, ctx ..>` part                         *)
  e_inner : string;         (* what the tool's regex extracts as the instance type        *)
  e_ctx : string;           (* ... and as the context type                                *)
  e_objtype : string;       (* objects: the CGlueTraitObj_.. type name found in the header *)
  e_funcs : list func
}.

Record config := mkcfg { c_container : option string; c_context : option string; c_prefix : option string }.

(* ContainerType::get_map / ContextType::get_map: mangled name -> (type prefix, has a drop implementation).
   The tables are compared with the ones re-read from the source (gen/Bindgen_Src.v) in props/C17.v. *)
Definition inner_table : list (string * (string * bool)) :=
  [("CBox_c_void", ("Box", true)); ("____c_void", ("Mut", false)); ("_____c_void", ("Ref", false))].
Definition ctx_table : list (string * (string * bool)) :=
  [("NoContext", ("", false)); ("CArc_c_void", ("Arc", true))].
Fixpoint assoc {A} (l : list (string * A)) (k : string) : option A :=
  match l with [] => None | (k', v) :: r => if String.eqb k' k then Some v else assoc r k end.
Definition inner_info (s : string) : string * bool := match assoc inner_table s with Some x => x | None => (s, false) end.
Definition ctx_info (s : string) : string * bool := match assoc ctx_table s with Some x => x | None => (s, false) end.

Definition this_ty (e : entry) : string :=
  if e_obj e then "struct " ++ e_objtype e else "struct " ++ e_cont e ++ "_" ++ e_second e.
Definition container_ty (e : entry) : string :=
  if e_obj e then "struct CGlueObjContainer_" ++ e_second e else "struct " ++ e_cont e ++ "Container_" ++ e_second e.
Definition vtbl_field (e : entry) : string :=
  if e_obj e then "vtbl" else "vtbl_" ++ lower (e_trait e).

Definition opt_eqb (o : option string) (s : string) : bool := match o with Some x => String.eqb x s | None => false end.

Fixpoint dedup (l : list string) : list string :=
  match l with [] => [] | x :: r => if existsb (String.eqb x) r then dedup r else x :: dedup r end.

(* vtbl_types: function name -> set of object traits that have it *)
Definition traits_with (objs : list entry) (name : string) : list string :=
  dedup (map e_trait (filter (fun e => existsb (fun f => String.eqb (f_name f) name) (e_funcs e)) objs)).

(* groups: function name -> set of traits of that group (any variant) that have it.  [clash] is read from the source by the
   translator: false = the group loop always prefixes with the group name only (the code as found), true = group name and trait name
   when more than one trait of the group has the function *)
Definition group_traits_with (es : list entry) (cont name : string) : list string :=
  dedup (map e_trait (filter (fun e => negb (e_obj e) && String.eqb (e_cont e) cont &&
                                       existsb (fun f => String.eqb (f_name f) name) (e_funcs e)) es)).

Definition ty_prefix (clash : bool) (es : list entry) (e : entry) (f : func) : option string :=
  if e_obj e then
    (if String.eqb (f_name f) "drop" || (1 <? List.length (traits_with (filter e_obj es) (f_name f))) then Some (e_trait e) else None)
  else if clash && (1 <? List.length (group_traits_with es (e_cont e) (f_name f))) then Some (e_cont e ++ "_" ++ e_trait e)
  else Some (e_cont e).

(* the (prefix, cast_self) decision of create_wrappers_c.  `vtbls` is what the caller passes as the list of vtable fields to copy. *)
Definition c_prefix_of (clash : bool) (cfg : config) (es : list entry) (e : entry) (f : func) : string * bool :=
  let '(cpre, _) := inner_info (e_inner e) in
  let '(xpre, _) := ctx_info (e_ctx e) in
  let tp := ty_prefix clash es e f in
  let pc :=
    if f_moves f || String.eqb (f_ret f) (this_ty e) then
      let m := opt_eqb (c_context cfg) xpre && opt_eqb (c_container cfg) cpre in
      let ctxp := if String.eqb xpre "" || m then "" else lower xpre ++ "_" in
      let conp := if m then "" else lower cpre ++ "_" in
      (match tp with Some ty => lower ty ++ "_" ++ ctxp ++ conp | None => ctxp ++ conp end, false)
    else
      (match tp with Some ty => lower ty ++ "_" | None => "" end, true) in
  (match c_prefix cfg with Some p => p ++ "_" ++ fst pc | None => fst pc end, snd pc).

Definition wrapper_of (clash : bool) (cfg : config) (es : list entry) (vtbls : entry -> list string) (e : entry) (f : func) : wrapper :=
  let '(cpre, cdrop) := inner_info (e_inner e) in
  let '(xpre, xdrop) := ctx_info (e_ctx e) in
  let '(p, cast) := c_prefix_of clash cfg es e f in
  mk_wrapper false f "container" (vtbl_field e) p false cast (this_ty e) (vtbls e) (container_ty e) cpre cdrop (e_ctx e) xpre xdrop.

Definition key_eqb (a b : string * string) : bool := String.eqb (fst a) (fst b) && String.eqb (snd a) (snd b).

(* one emitted wrapper: (entry index, function index (= number of functions for the drop helper), wrapper) *)
Definition emitted : Type := (nat * nat * wrapper)%type.

Definition funcs_of (e : entry) : list func := (e_funcs e ++ [drop_func])%list.

Fixpoint gen_funcs (clash : bool) (cfg : config) (alles : list entry) (vtbls : entry -> list string) (ei : nat) (e : entry) (fs : list func) (fi : nat)
         (seen : list (string * string)) : list emitted * list (string * string) :=
  match fs with
  | [] => ([], seen)
  | f :: r =>
      let '(p, _) := c_prefix_of clash cfg alles e f in
      let k := (p, f_name f) in
      if existsb (key_eqb k) seen then gen_funcs clash cfg alles vtbls ei e r (S fi) seen
      else let '(out, seen') := gen_funcs clash cfg alles vtbls ei e r (S fi) (k :: seen) in
           ((ei, fi, wrapper_of clash cfg alles vtbls e f) :: out, seen')
  end.

Fixpoint gen_entries (clash : bool) (cfg : config) (alles : list entry) (vtbls : entry -> list string) (es : list (nat * entry)) (seen : list (string * string)) : list emitted :=
  match es with
  | [] => []
  | (ei, e) :: r =>
      let '(out, seen') := gen_funcs clash cfg alles vtbls ei e (funcs_of e) 0 seen in
      (out ++ gen_entries clash cfg alles vtbls r seen')%list
  end.

(* objects first (in header order), then groups (in header order): the two loops of parse_header share `generated_funcs` *)
Definition ordered (es : list entry) : list (nat * entry) :=
  let ix := combine (seq 0 (List.length es)) es in
  (filter (fun p => e_obj (snd p)) ix ++ filter (fun p => negb (e_obj (snd p))) ix)%list.

(* what parse_header passes as the vtable fields to copy into a returned object.
   [vt_mode] is read from the source by the translator: bit 0 objects, bit 1 groups; 0 = `&[]` is passed, 1 = the fields of the object *)
Definition group_fields (es : list entry) (e : entry) : list string :=
  map vtbl_field (filter (fun x => negb (e_obj x) && String.eqb (e_cont x) (e_cont e) && String.eqb (e_second x) (e_second e)) es).
Definition fields_of (es : list entry) (e : entry) : list string := if e_obj e then ["vtbl"] else group_fields es e.
Definition vtbls_passed (vt_mode : nat) (es : list entry) (e : entry) : list string :=
  if e_obj e then (if Nat.odd vt_mode then fields_of es e else [])
  else (if 2 <=? vt_mode then fields_of es e else []).

Definition gen_c (vt_mode : nat) (clash : bool) (cfg : config) (es : list entry) : list emitted :=
  gen_entries clash cfg es (vtbls_passed vt_mode es) (ordered es) [].

(* the wrapper that serves vtable entry (ei, fi): the first emitted wrapper with the same name *)
Definition name_for (clash : bool) (cfg : config) (es : list entry) (e : entry) (f : func) : string :=
  fst (c_prefix_of clash cfg es e f) ++ f_name f.

Fixpoint find_wrapper (name : string) (l : list emitted) (k : nat) : option (nat * emitted) :=
  match l with
  | [] => None
  | x :: r => if String.eqb (w_name (snd x)) name then Some (k, x) else find_wrapper name r (S k)
  end.

(* ------------------------------------------------------------------------------------------------ header level, C++ mode *)
(* Vtable::create_wrappers: member functions of a group class / of a CGlueTraitObj specialisation *)
Definition cpp_wrapper (rel : bool) (f : func) (vtbl prefix this_ty : string) (vtbls : list string) : wrapper :=
  mk_wrapper rel f "container" vtbl prefix true false this_ty vtbls "CGlueC" "" false "" "" false.

Record cgroup := mkcgroup { g_name : string; g_traits : list string }.   (* vtables in field order *)
Record cvtbl := mkcvtbl { v_name : string; v_funcs : list func }.

Fixpoint find_vtbl (vs : list cvtbl) (n : string) : option cvtbl :=
  match vs with [] => None | v :: r => if String.eqb (v_name v) n then Some v else find_vtbl r n end.

Definition dup_in_group (vs : list cvtbl) (g : cgroup) (tr fname : string) : bool :=
  existsb (fun t => negb (String.eqb t tr) &&
                    match find_vtbl vs t with Some v => existsb (fun f => String.eqb (f_name f) fname) (v_funcs v) | None => false end)
          (g_traits g).

Definition gen_cpp_group (rel : bool) (vs : list cvtbl) (g : cgroup) : list (string * nat * wrapper) :=
  let fields := map (fun t => "vtbl_" ++ lower t) (g_traits g) in
  flat_map (fun t => match find_vtbl vs t with
                     | None => []
                     | Some v => map (fun fi : nat * func =>
                                   let f := snd fi in
                                   (t, fst fi, cpp_wrapper rel f ("vtbl_" ++ lower t)
                                                  (if dup_in_group vs g t (f_name f) then lower t ++ "_" else "") (g_name g) fields))
                                 (combine (seq 0 (List.length (v_funcs v))) (v_funcs v))
                     end) (g_traits g).

Definition gen_cpp_obj (rel : bool) (v : cvtbl) : list (string * nat * wrapper) :=
  map (fun fi : nat * func => (v_name v, fst fi, cpp_wrapper rel (snd fi) "vtbl" "" "CGlueTraitObj" ["vtbl"]))
      (combine (seq 0 (List.length (v_funcs v))) (v_funcs v)).

(* ------------------------------------------------------------------------------------------------ main.rs: the argument split *)
Definition is_out (s : string) : bool := String.eqb s "-o" || String.eqb s "--output".

Fixpoint take_pre (l : list string) : list string :=
  match l with [] => [] | x :: r => if String.eqb x "--" then [] else x :: take_pre r end.
Fixpoint drop_pre (l : list string) : list string :=
  match l with [] => [] | x :: r => if String.eqb x "--" then l else drop_pre r end.

(* `for a in args.windows(2)` over the arguments from `--` on *)
Fixpoint windows (l : list string) (out : option string) (acc : list string) : option string * list string :=
  match l with
  | a0 :: ((a1 :: _) as r) =>
      if is_out a0 then windows r (match out with None => Some a1 | Some _ => out end) acc
      else if is_out a1 then windows r out acc
      else windows r out (a1 :: acc)
  | _ => (out, rev acc)
  end.

Fixpoint cfg_path (l : list string) (cur : option string) : option string :=
  match l with
  | a0 :: ((a1 :: _) as r) => cfg_path r (if String.eqb a0 "-c" || String.eqb a0 "--config" then Some a1 else cur)
  | _ => cur
  end.

(* argv without the program name -> (config file, +nightly, arguments for cbindgen, output path) *)
Definition split_cli (argv : list string) : option string * bool * list string * option string :=
  let pre := take_pre argv in
  let post := drop_pre argv in
  let '(out, pass) := windows post None [] in
  (cfg_path pre None, existsb (String.eqb "+nightly") pre, pass, out).

(* the specification the property states: everything after `--` except each `-o X` / `--output X` pair; the first X is the output *)
Fixpoint strip_pairs (l : list string) : list string :=
  match l with
  | [] => []
  | a :: r => if is_out a then match r with [] => [] | _ :: r' => strip_pairs r' end else a :: strip_pairs r
  end.
Fixpoint first_out (l : list string) : option string :=
  match l with
  | [] => None
  | a :: r => if is_out a then match r with [] => None | x :: _ => Some x end else first_out r
  end.

(* ------------------------------------------------------------------------------------------------ integer interface *)
Definition str_of_row (r : list Z) : string := sl (map (fun z => ascii_of_nat (zn z)) r).
Definition row_of_str (s : string) : list Z := map (fun c => nz (nat_of_ascii c)) (la s).
Definition opt_of_row (r : list Z) : option string := match r with [(-1)%Z] => None | _ => Some (str_of_row r) end.

Fixpoint take_funcs (n : nat) (rows : list (list Z)) : list func * list (list Z) :=
  match n with
  | 0 => ([], rows)
  | S n =>
      match rows with
      | [k] :: name :: ret :: args :: rest =>
          let '(fs, rest') := take_funcs n rest in
          (parse_func (str_of_row name) (str_of_row ret) (zn k) (str_of_row args) :: fs, rest')
      | _ => ([], [])
      end
  end.

Fixpoint take_entries (fuel : nat) (rows : list (list Z)) : list entry :=
  match fuel with
  | 0 => []
  | S fuel =>
      match rows with
      | [kind; nf] :: tr :: cont :: second :: inner :: ctx :: objty :: rest =>
          let '(fs, rest') := take_funcs (zn nf) rest in
          mkentry (Z.eqb kind 0) (str_of_row tr) (str_of_row cont) (str_of_row second) (str_of_row inner) (str_of_row ctx) (str_of_row objty) fs
          :: take_entries fuel rest'
      | _ => []
      end
  end.

Definition ev_row (e : ev) : list Z :=
  match e with
  | EvClone => [1%Z]
  | EvCall vt slot addr args => ([2%Z; bz addr; nz (List.length args)] ++ [nz (String.length vt)] ++ row_of_str vt ++ [nz (String.length slot)] ++ row_of_str slot)%list
  | EvDropClone => [3%Z]
  | EvForget => [6%Z]
  | EvDropInst => [4%Z]
  | EvDropCtx => [5%Z]
  end.

Definition ret_code (r : retval) : list Z :=
  match r with RetVoid => [0%Z] | RetCall => [1%Z] | RetWrapped c => (2 :: nz (List.length c) :: flat_map (fun s => nz (String.length s) :: row_of_str s) c)%Z | RetGarbage => [9%Z] end.

(* model 17, C mode.  params: vt_mode, clash mode.  rows: default container, default context, function prefix (each a string or [-1]); entries.
   output: per emitted wrapper   [1; entry; func] ; <text>
           per vtable entry      [2; entry; func; index of the serving wrapper or -1] ; <its name> ; [3; trace ...] ; [4; return ...] *)
Definition run_bindgen_c (params : list Z) (rows : list (list Z)) : list (list Z) :=
  match rows with
  | dc :: dx :: fp :: rest =>
      let cfg := mkcfg (opt_of_row dc) (opt_of_row dx) (opt_of_row fp) in
      let es := take_entries (List.length rest) rest in
      let vt_mode := match params with v :: _ => zn v | [] => 0 end in
      let clash := match params with _ :: c :: _ => zb c | _ => false end in
      let out := gen_c vt_mode clash cfg es in
      List.app (flat_map (fun x : emitted => let '(ei, fi, w) := x in [[1; nz ei; nz fi]%Z; row_of_str (render "container" w)]) out)
      (flat_map (fun ie : nat * entry => let '(ei, e) := ie in
         flat_map (fun jf : nat * func => let '(fi, f) := jf in
            let n := name_for clash cfg es e f in
            match find_wrapper n out 0 with
            | Some (k, (_, _, w)) => [[2; nz ei; nz fi; nz k]%Z; row_of_str n; (3 :: flat_map ev_row (trace w))%Z; (4 :: ret_code (returns w))%Z]
            | None => [[2; nz ei; nz fi; -1]%Z; row_of_str n; [3%Z]; [4%Z]]
            end) (combine (seq 0 (List.length (funcs_of e))) (funcs_of e)))
         (combine (seq 0 (List.length es)) es))
  | _ => [[-2]%Z]
  end.

(* model 217: ArgsParser alone.  rows: one string.  output: per argument  <type> ; <name> *)
Definition run_split_args (params : list Z) (rows : list (list Z)) : list (list Z) :=
  match rows with
  | [r] => flat_map (fun p : list ascii * list ascii => [row_of_str (sl (fst p)); row_of_str (sl (snd p))]) (split_args (la (str_of_row r)))
  | [] => []
  | _ => [[-2]%Z]
  end.

(* model 18: the argument split.  rows: argv (one string per row).  output: [cfg present] ; cfg ; [nightly] ; [out present] ; out ; passed.. *)
Definition run_cli (params : list Z) (rows : list (list Z)) : list (list Z) :=
  let '(c, n, pass, out) := split_cli (map str_of_row rows) in
  ([[bz (match c with Some _ => true | None => false end)]; row_of_str (match c with Some x => x | None => "" end); [bz n];
   [bz (match out with Some _ => true | None => false end)]; row_of_str (match out with Some x => x | None => "" end)] ++ map row_of_str pass)%list.

(* model 117, C++ mode.  params: release mode.  rows: [nv] ; per vtable: [nf] ; name ; functions (as for model 17) ... ; [ng] ; per group: [nt] ; name ; trait names.
   output: per member function  [1; kind (0 group / 1 object); group or vtable index; vtable index; function index] ; name ; text ; [3; trace] ; [4; return] *)
Fixpoint take_vtbls (n : nat) (rows : list (list Z)) : list cvtbl * list (list Z) :=
  match n with
  | 0 => ([], rows)
  | S n =>
      match rows with
      | [nf] :: name :: rest =>
          let '(fs, rest') := take_funcs (zn nf) rest in
          let '(vs, rest'') := take_vtbls n rest' in
          (mkcvtbl (str_of_row name) fs :: vs, rest'')
      | _ => ([], [])
      end
  end.

Fixpoint take_groups (n : nat) (rows : list (list Z)) : list cgroup :=
  match n with
  | 0 => []
  | S n =>
      match rows with
      | [nt] :: name :: rest => mkcgroup (str_of_row name) (map str_of_row (firstn (zn nt) rest)) :: take_groups n (skipn (zn nt) rest)
      | _ => []
      end
  end.

Fixpoint index_of (vs : list cvtbl) (n : string) (k : nat) : nat :=
  match vs with [] => k | v :: r => if String.eqb (v_name v) n then k else index_of r n (S k) end.

Definition wrapper_rows (hdr : list Z) (w : wrapper) : list (list Z) :=
  [hdr; row_of_str (w_name w); row_of_str (render "container" w); (3 :: flat_map ev_row (trace w))%Z; (4 :: ret_code (returns w))%Z].

Definition run_bindgen_cpp (params : list Z) (rows : list (list Z)) : list (list Z) :=
  match rows with
  | [nv] :: rest =>
      let '(vs, rest') := take_vtbls (zn nv) rest in
      match rest' with
      | [ng] :: rest'' =>
          let gs := take_groups (zn ng) rest'' in
          let rel := match params with r :: _ => zb r | [] => false end in
          List.app
            (flat_map (fun ig : nat * cgroup => let '(gi, g) := ig in
               flat_map (fun x : string * nat * wrapper => let '(t, fi, w) := x in
                           wrapper_rows [1; 0; nz gi; nz (index_of vs t 0); nz fi]%Z w) (gen_cpp_group rel vs g))
               (combine (seq 0 (List.length gs)) gs))
            (flat_map (fun iv : nat * cvtbl => let '(vi, v) := iv in
               flat_map (fun x : string * nat * wrapper => let '(_, fi, w) := x in
                           wrapper_rows [1; 1; nz vi; nz vi; nz fi]%Z w) (gen_cpp_obj rel v))
               (combine (seq 0 (List.length vs)) vs))
      | _ => [[-2]%Z]
      end
  | _ => [[-2]%Z]
  end.
