(* Extraction of the executable models to OCaml.  ExtrOcamlBasic only: bool, option, unit,
   prod, list, sumbool, sumor are mapped to OCaml's; nat/positive/N/Z stay inductive. *)
Require Import Verif.common.Prelude.
Require Import Verif.model.Dispatch.
Require Extraction.
From Coq Require Import ExtrOcamlBasic.
Extraction Language OCaml.
Extraction "extract/model.ml" run_model.
