(* Generic driver for the extracted models.
   stdin : one case per line   "<model> <param>* | <int>* ; <int>* ; ..."
   stdout: one line per case   "<int>* ; <int>* ; ..."            (rows of the model's output)
   No model-specific code here: operations are decoded inside Coq. *)
open Model

let rec pos_of_int n = if n = 1 then XH else if n land 1 = 1 then XI (pos_of_int (n lsr 1)) else XO (pos_of_int (n lsr 1))
let z_of_int n = if n = 0 then Z0 else if n > 0 then Zpos (pos_of_int n) else Zneg (pos_of_int (-n))
let rec int_of_pos = function XH -> 1 | XO p -> 2 * int_of_pos p | XI p -> 2 * int_of_pos p + 1
let int_of_z = function Z0 -> 0 | Zpos p -> int_of_pos p | Zneg p -> - (int_of_pos p)

let ints_of s =
  String.split_on_char ' ' s |> List.filter (fun t -> t <> "") |> List.map (fun t -> z_of_int (int_of_string t))

let () =
  try
    while true do
      let line = input_line stdin in
      if String.trim line <> "" then begin
        let hd, body =
          match String.index_opt line '|' with
          | Some i -> String.sub line 0 i, String.sub line (i + 1) (String.length line - i - 1)
          | None -> line, "" in
        let hdr = ints_of hd in
        let rows = if String.trim body = "" then [] else List.map ints_of (String.split_on_char ';' body) in
        let m, params = match hdr with m :: ps -> m, ps | [] -> Z0, [] in
        let out = run_model m params rows in
        let s = String.concat " ; " (List.map (fun r -> String.concat " " (List.map (fun z -> string_of_int (int_of_z z)) r)) out) in
        print_endline s
      end
    done
  with End_of_file -> ()
